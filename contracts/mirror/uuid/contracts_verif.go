//go:build verif

// Contracts for deductive verification (comment-only; no declarations). Checked by
// /verif/govc against the code of this package on every run. See /verif/DESIGN.md.

package uuid

// NewV4 (C18): version 4, variant 1, every other bit comes unchanged from crypto/rand.Read.
// randByte(i) names the i-th byte produced by the Read call of this execution.
//@ func NewV4() (u *UUID)
//@   frame [C17, C18]
//@   assigns nothing
//@   fresh [C18] u
//@   ensures [C18] version: u[6] / 16 == 4
//@   ensures [C18] variant: u[8] / 64 == 2
//@   ensures [C18] free6: u[6] % 16 == randByte(6) % 16
//@   ensures [C18] free8: u[8] % 64 == randByte(8) % 64
//@   ensures [C18] rest: forall i int :: 0 <= i && i < 16 && i != 6 && i != 8 ==> u[i] == randByte(i)

// String (C18): canonical 8-4-4-4-12 lower-case hex of the 16 bytes. The body is a single fmt.Sprintf call whose
// format literal and slice bounds are checked by a schema obligation; uuidStr names the rendering.
//@ ghost func uuidStr(u UUID) string
//@ func (u *UUID) String() (result string)
//@   trusted
//@   assigns nothing
//@   ensures result == uuidStr(*u)
