//go:build verif

// Contracts for deductive verification (comment-only; no declarations). Checked by
// /verif/govc against the code of this package on every run. See /verif/DESIGN.md.

package types

// DecryptSymmetricKey (C07 recipient binding, C09 totality, C11 dispatch; C19: every method the metadata lists is
// decryptable -- the success conditions below admit every AES key length and every advertised algorithm)
//@ pure func DigestAlg(ek *EncryptedKey) int {
//@   return ek.EncryptionMethod.DigestMethod == nil ? 1
//@        : (ek.EncryptionMethod.DigestMethod.Algorithm == "" || ek.EncryptionMethod.DigestMethod.Algorithm == MethodSHA1) ? 1
//@        : ek.EncryptionMethod.DigestMethod.Algorithm == MethodSHA256 ? 256
//@        : ek.EncryptionMethod.DigestMethod.Algorithm == MethodSHA512 ? 512 : 0
//@ }
//@ pure func IsOAEP(alg string) bool {
//@   return alg == MethodRSAOAEP || alg == MethodRSAOAEP2
//@ }

// A key store never holds a typed-nil RSA key (configuration invariant).
//@ pure func KeyOK(k crypto.PrivateKey) bool {
//@   return k is *rsa.PrivateKey ==> k.(*rsa.PrivateKey) != nil
//@ }

// Key unwrap succeeds exactly when: a certificate is present, a named recipient certificate equals it, the wrapped
// key is base64, the private key is RSA, the digest identifier is known, the transport is OAEP (either identifier)
// or PKCS#1 v1.5 and the RSA operation succeeds, and the unwrapped key has an AES key length.
//@ pure func UnwrappedKey(ek *EncryptedKey, cert *tls.Certificate) []byte {
//@   return IsOAEP(ek.EncryptionMethod.Algorithm) ? oaepOf(DigestAlg(ek), cert.PrivateKey.(*rsa.PrivateKey), b64dec(ek.CipherValue))
//@        : pkcs1Of(cert.PrivateKey.(*rsa.PrivateKey), b64dec(ek.CipherValue))
//@ }
//@ pure func UnwrapOK(ek *EncryptedKey, cert *tls.Certificate) bool {
//@   return len(cert.Certificate) >= 1
//@       && (ek.X509Data != "" ==> b64ok(ek.X509Data) && bytesEq(cert.Certificate[0], b64dec(ek.X509Data)))
//@       && b64ok(ek.CipherValue) && cert.PrivateKey is *rsa.PrivateKey && DigestAlg(ek) != 0
//@       && (   (IsOAEP(ek.EncryptionMethod.Algorithm) && oaepOK(DigestAlg(ek), cert.PrivateKey.(*rsa.PrivateKey), b64dec(ek.CipherValue)))
//@           || (ek.EncryptionMethod.Algorithm == MethodRSAv1_5 && pkcs1OK(cert.PrivateKey.(*rsa.PrivateKey), b64dec(ek.CipherValue))))
//@       && (len(UnwrappedKey(ek, cert)) == 16 || len(UnwrappedKey(ek, cert)) == 24 || len(UnwrappedKey(ek, cert)) == 32)
//@ }

//@ func (ek *EncryptedKey) DecryptSymmetricKey(cert *tls.Certificate) (blk cipher.Block, err error)
//@   requires ek != nil && cert != nil
//@   requires keyok: KeyOK(cert.PrivateKey)
//@   safety [C09]
//@   frame [C17]
//@   assigns nothing
//@   ensures [C09] xor: (blk != nil) != (err != nil)
//@   ensures [C07] nocert: len(cert.Certificate) < 1 ==> err != nil
//@   ensures [C07] recipient: err == nil && ek.X509Data != "" ==> b64ok(ek.X509Data) && bytesEq(cert.Certificate[0], b64dec(ek.X509Data))
//@   ensures [C11] rsaonly: err == nil ==> cert.PrivateKey is *rsa.PrivateKey && b64ok(ek.CipherValue)
//@   ensures [C11] oaep: err == nil && IsOAEP(ek.EncryptionMethod.Algorithm) ==> DigestAlg(ek) != 0
//@        && oaepOK(DigestAlg(ek), cert.PrivateKey.(*rsa.PrivateKey), b64dec(ek.CipherValue))
//@        && aesKeyOf(blk) == oaepOf(DigestAlg(ek), cert.PrivateKey.(*rsa.PrivateKey), b64dec(ek.CipherValue))
//@   ensures [C11] pkcs1: err == nil && ek.EncryptionMethod.Algorithm == MethodRSAv1_5 ==>
//@        pkcs1OK(cert.PrivateKey.(*rsa.PrivateKey), b64dec(ek.CipherValue))
//@        && aesKeyOf(blk) == pkcs1Of(cert.PrivateKey.(*rsa.PrivateKey), b64dec(ek.CipherValue))
//@   ensures [C11] transport: err == nil ==> IsOAEP(ek.EncryptionMethod.Algorithm) || ek.EncryptionMethod.Algorithm == MethodRSAv1_5
//@   ensures [C11, C19] aes: err == nil ==> blockSizeOf(blk) == 16
//@   ensures [C11, C19] total: err == nil <==> UnwrapOK(ek, cert)
//@   ensures [C11] key: err == nil ==> blk == aesBlock(UnwrappedKey(ek, cert))

//@ func debugKeyFp(keyBytes []byte) (result string)
//@   safety [C09]
//@   assigns nothing
//@   loop 0
//@     invariant [C09] idx: 0 <= idx && idx <= len(sum)

// DecryptBytes (C09 totality on attacker-length ciphertext, C11 dispatch and key placement)
//@ pure func IsGCM(alg string) bool {
//@   return alg == MethodAES128GCM || alg == MethodAES192GCM || alg == MethodAES256GCM
//@ }
//@ pure func IsCBC(alg string) bool {
//@   return alg == MethodAES128CBC || alg == MethodAES256CBC || alg == MethodTripleDESCBC
//@ }
// Functional contract per advertised method (relative to the cipher contracts): decryption succeeds exactly when the
// ciphertext is base64, the key unwraps, and the AEAD opens / the CBC padding is possible; the output is the opened
// plaintext / the unpadded CBC plaintext. Stated for the inline and for the detached EncryptedKey.
//@ pure func GCMPlain(ea *EncryptedAssertion, key []byte) []byte {
//@   return gcmOpenOf(gcmOf(aesBlock(key)), b64dec(ea.CipherValue)[0:12], b64dec(ea.CipherValue)[12:])
//@ }
//@ pure func GCMOK(ea *EncryptedAssertion, key []byte) bool {
//@   return b64ok(ea.CipherValue) && len(b64dec(ea.CipherValue)) >= 12
//@       && gcmOpenOK(gcmOf(aesBlock(key)), b64dec(ea.CipherValue)[0:12], b64dec(ea.CipherValue)[12:])
//@ }
//@ pure func CBCTrimmed(ea *EncryptedAssertion, key []byte) []byte {
//@   return trimRight(cbcDecrypt(cbcOf(aesBlock(key), b64dec(ea.CipherValue)[0:16]), b64dec(ea.CipherValue)[16:]), "\x00")
//@ }
//@ pure func CBCOK(ea *EncryptedAssertion, key []byte) bool {
//@   return b64ok(ea.CipherValue) && len(b64dec(ea.CipherValue)) % 16 == 0 && len(b64dec(ea.CipherValue)) >= 32
//@       && len(CBCTrimmed(ea, key)) > 0 && int(CBCTrimmed(ea, key)[len(CBCTrimmed(ea, key)) - 1]) <= len(CBCTrimmed(ea, key))
//@ }
//@ func (ea *EncryptedAssertion) DecryptBytes(cert *tls.Certificate) (out []byte, err error)
//@   requires ea != nil && cert != nil
//@   requires keyok: KeyOK(cert.PrivateKey)
//@   safety [C09]
//@   frame [C17]
//@   assigns nothing
//@   ensures [C11] method: err == nil ==> IsGCM(ea.EncryptionMethod.Algorithm) || IsCBC(ea.EncryptionMethod.Algorithm)
//@   ensures [C11] data: err == nil ==> b64ok(ea.CipherValue)
//@   ensures [C11, C07, C19] gcm.inline: IsGCM(ea.EncryptionMethod.Algorithm) && ea.EncryptedKey.CipherValue != "" ==>
//@        (err == nil <==> b64ok(ea.CipherValue) && UnwrapOK(&ea.EncryptedKey, cert) && GCMOK(ea, UnwrappedKey(&ea.EncryptedKey, cert)))
//@        && (err == nil ==> out == GCMPlain(ea, UnwrappedKey(&ea.EncryptedKey, cert)))
//@   ensures [C11, C07, C19] gcm.detached: IsGCM(ea.EncryptionMethod.Algorithm) && ea.EncryptedKey.CipherValue == "" ==>
//@        (err == nil <==> b64ok(ea.CipherValue) && UnwrapOK(&ea.DetEncryptedKey, cert) && GCMOK(ea, UnwrappedKey(&ea.DetEncryptedKey, cert)))
//@        && (err == nil ==> out == GCMPlain(ea, UnwrappedKey(&ea.DetEncryptedKey, cert)))
//@   ensures [C11, C07, C19] cbc.inline: IsCBC(ea.EncryptionMethod.Algorithm) && ea.EncryptedKey.CipherValue != "" ==>
//@        (err == nil <==> b64ok(ea.CipherValue) && UnwrapOK(&ea.EncryptedKey, cert) && CBCOK(ea, UnwrappedKey(&ea.EncryptedKey, cert)))
//@   ensures [C11, C07, C19] cbc.detached: IsCBC(ea.EncryptionMethod.Algorithm) && ea.EncryptedKey.CipherValue == "" ==>
//@        (err == nil <==> b64ok(ea.CipherValue) && UnwrapOK(&ea.DetEncryptedKey, cert) && CBCOK(ea, UnwrappedKey(&ea.DetEncryptedKey, cert)))
//@   ensures [C11] unknown: !IsGCM(ea.EncryptionMethod.Algorithm) && !IsCBC(ea.EncryptionMethod.Algorithm) ==> err != nil
// CBC unpadding (xmlenc): the last byte is the pad length N, 1 <= N <= block size; exactly N bytes are removed and
// nothing but an impossible pad length is rejected at that stage (so every residue of the plaintext length round-trips).
//@   exit [C11] cbc.accept: IsCBC(ea.EncryptionMethod.Algorithm) && int(padLength) <= len(data) ==> err == nil
//@   exit [C11] cbc.strip: IsCBC(ea.EncryptionMethod.Algorithm) && err == nil ==> lastGoodIndex == len(data) - int(padLength) && len(out) == lastGoodIndex
//@   exit [C11] gcm.split: IsGCM(ea.EncryptionMethod.Algorithm) && err == nil ==> len(nonce) == 12 && out == plainText

// Decrypt (exported): DecryptBytes, then the tag-driven decode of the plaintext into a fresh Assertion.
//@ func (ea *EncryptedAssertion) Decrypt(cert *tls.Certificate) (a *Assertion, err error)
//@   requires ea != nil && cert != nil && KeyOK(cert.PrivateKey)
//@   safety [C09]
//@   fresh [C09] a when err == nil
//@   ensures [C09] xor: (a != nil) != (err != nil)
//@   exit [C09, C11] failed: lasterr(EncryptedAssertion.DecryptBytes) != nil ==> err != nil
//@   exit [C11] plaintext: called(Unmarshal) ==> lastarg(Unmarshal, 0) == lastres(EncryptedAssertion.DecryptBytes, 0)
