//go:build verif

// Contracts for deductive verification (comment-only; no declarations). Checked by
// /verif/govc against the code of this package on every run. See /verif/DESIGN.md.

package saml2

// ---------------------------------------------------------------------------
// Profile predicates (transcribed from the property statements C03, C05, C10)
// ---------------------------------------------------------------------------

//@ pure func IssuerOK(sp *SAMLServiceProvider, i *types.Issuer) bool {
//@   return i != nil && (sp.IdentityProviderIssuer == "" || i.Value == sp.IdentityProviderIssuer)
//@ }
//@ pure func DestOK(d string, expected string) bool {
//@   return d == "" || d == expected
//@ }
//@ pure func StatusOK(s *types.Status) bool {
//@   return s != nil && s.StatusCode != nil && s.StatusCode.Value == StatusCodeSuccess
//@ }

// ---------------------------------------------------------------------------
// validate.go
// ---------------------------------------------------------------------------

//@ pure func CondWellFormed(c *types.Conditions) bool {
//@   return c != nil && c.NotBefore != "" && parseOK(c.NotBefore) && c.NotOnOrAfter != "" && parseOK(c.NotOnOrAfter)
//@ }
//@ pure func RestrictionMatches(ar types.AudienceRestriction, uri string) bool {
//@   return exists u int :: 0 <= u && u < len(ar.Audiences) && ar.Audiences[u].Value == uri
//@ }

// The warnings mirror the conditions exactly (C05 window, C06 audience / one-time-use / proxy).
//@ pure func WarningsMirror(sp *SAMLServiceProvider, c *types.Conditions, w *WarningInfo) bool {
//@   return w != nil
//@     && (w.InvalidTime <==> now(sp.Clock) < instantOf(c.NotBefore) || now(sp.Clock) >= instantOf(c.NotOnOrAfter))
//@     && (w.NotInAudience <==> exists r int :: 0 <= r && r < len(c.AudienceRestrictions) && !RestrictionMatches(c.AudienceRestrictions[r], sp.AudienceURI))
//@     && (w.OneTimeUse <==> c.OneTimeUse != nil)
//@     && (w.ProxyRestriction == nil <==> c.ProxyRestriction == nil)
//@     && (c.ProxyRestriction != nil ==> w.ProxyRestriction.Count == c.ProxyRestriction.Count
//@           && len(w.ProxyRestriction.Audience) == len(c.ProxyRestriction.Audience)
//@           && forall m int :: 0 <= m && m < len(c.ProxyRestriction.Audience) ==> w.ProxyRestriction.Audience[m] == c.ProxyRestriction.Audience[m].Value)
//@ }

//@ func (sp *SAMLServiceProvider) VerifyAssertionConditions(assertion *types.Assertion) (w *WarningInfo, err error)
//@   requires sp != nil && assertion != nil
//@   safety [C09]
//@   frame [C17]
//@   assigns nothing
//@   ensures [C05] wellformed: err == nil <==> CondWellFormed(assertion.Conditions)
//@   ensures [C05] xor: (w != nil) != (err != nil)
//@   ensures [C05] errkind: err != nil ==>
//@        (assertion.Conditions == nil && err == ErrMissingElement{Tag: ConditionsTag})
//@     || (assertion.Conditions != nil && assertion.Conditions.NotBefore == "" && err == ErrMissingElement{Tag: ConditionsTag, Attribute: NotBeforeAttr})
//@     || (assertion.Conditions != nil && !parseOK(assertion.Conditions.NotBefore) && err is ErrParsing && ErrParsing(err).Tag == NotBeforeAttr)
//@     || (assertion.Conditions != nil && assertion.Conditions.NotOnOrAfter == "" && err == ErrMissingElement{Tag: ConditionsTag, Attribute: NotOnOrAfterAttr})
//@     || (assertion.Conditions != nil && !parseOK(assertion.Conditions.NotOnOrAfter) && err is ErrParsing && ErrParsing(err).Tag == NotOnOrAfterAttr)
//@   ensures [C05] window: err == nil ==> (w.InvalidTime <==>
//@        now(sp.Clock) < instantOf(assertion.Conditions.NotBefore) || now(sp.Clock) >= instantOf(assertion.Conditions.NotOnOrAfter))
//@   ensures [C06] audience: err == nil ==> (w.NotInAudience <==>
//@        exists r int :: 0 <= r && r < len(assertion.Conditions.AudienceRestrictions)
//@                        && !RestrictionMatches(assertion.Conditions.AudienceRestrictions[r], sp.AudienceURI))
//@   ensures [C06] onetime: err == nil ==> (w.OneTimeUse <==> assertion.Conditions.OneTimeUse != nil)
//@   ensures [C06] proxy.presence: err == nil ==> (w.ProxyRestriction == nil <==> assertion.Conditions.ProxyRestriction == nil)
//@   ensures [C06] proxy.count: err == nil && assertion.Conditions.ProxyRestriction != nil ==>
//@        w.ProxyRestriction.Count == assertion.Conditions.ProxyRestriction.Count
//@   ensures [C06] proxy.len: err == nil && assertion.Conditions.ProxyRestriction != nil ==>
//@        len(w.ProxyRestriction.Audience) == len(assertion.Conditions.ProxyRestriction.Audience)
//@   ensures [C06] proxy.values: err == nil && assertion.Conditions.ProxyRestriction != nil ==>
//@        forall m int :: 0 <= m && m < len(assertion.Conditions.ProxyRestriction.Audience) ==>
//@            w.ProxyRestriction.Audience[m] == assertion.Conditions.ProxyRestriction.Audience[m].Value
//@   loop 0
//@     invariant [C06] noflag: !warningInfo.NotInAudience
//@     invariant [C06] prefix: forall r int :: 0 <= r && r < $i ==> RestrictionMatches(conditions.AudienceRestrictions[r], sp.AudienceURI)
//@   loop 1
//@     invariant [C06] nomatch: !matched
//@     invariant [C06] prefix: forall u int :: 0 <= u && u < $i ==> conditions.AudienceRestrictions[$i1].Audiences[u].Value != sp.AudienceURI
//@   loop 2
//@     invariant [C06] len: len(proxyRestrictionInfo.Audience) == $i
//@     invariant [C06] values: forall m int :: 0 <= m && m < $i ==> proxyRestrictionInfo.Audience[m] == proxyRestriction.Audience[m].Value
//@     invariant [C06] count: proxyRestrictionInfo.Count == proxyRestriction.Count

// ---------------------------------------------------------------------------
// Validate (C03, C05, C08): acceptance <==> every profile check passed, for every assertion
// ---------------------------------------------------------------------------

//@ pure func SCD(a types.Assertion) *types.SubjectConfirmationData {
//@   return a.Subject.SubjectConfirmation.SubjectConfirmationData
//@ }
//@ pure func SubjectShapeOK(sp *SAMLServiceProvider, a types.Assertion) bool {
//@   return a.Subject != nil && a.Subject.SubjectConfirmation != nil
//@       && a.Subject.SubjectConfirmation.Method == SubjMethodBearer
//@       && SCD(a) != nil && SCD(a).Recipient == sp.AssertionConsumerServiceURL
//@ }
//@ pure func NotExpired(sp *SAMLServiceProvider, a types.Assertion) bool {
//@   return SCD(a).NotOnOrAfter != "" && parseOK(SCD(a).NotOnOrAfter) && now(sp.Clock) < instantOf(SCD(a).NotOnOrAfter)
//@ }
//@ pure func AssertionOK(sp *SAMLServiceProvider, a types.Assertion) bool {
//@   return IssuerOK(sp, a.Issuer) && SubjectShapeOK(sp, a) && NotExpired(sp, a)
//@ }
//@ pure func ResponseAttrsOK(sp *SAMLServiceProvider, r *types.Response) bool {
//@   return DestOK(r.Destination, sp.AssertionConsumerServiceURL) && r.Version == "2.0"
//@ }
//@ pure func ProfileOK(sp *SAMLServiceProvider, r *types.Response) bool {
//@   return ResponseAttrsOK(sp, r) && len(r.Assertions) >= 1 && IssuerOK(sp, r.Issuer) && StatusOK(r.Status)
//@       && forall k int :: 0 <= k && k < len(r.Assertions) ==> AssertionOK(sp, r.Assertions[k])
//@ }
// The typed error names a violated element/attribute (only type and naming fields are compared).
//@ pure func IsMissing(err error, tag string, attr string) bool {
//@   return err is ErrMissingElement && ErrMissingElement(err).Tag == tag && ErrMissingElement(err).Attribute == attr
//@ }
//@ pure func IsInvalid(err error, key string) bool {
//@   return err is ErrInvalidValue && ErrInvalidValue(err).Key == key
//@ }
//@ pure func IsInvalidR(err error, key string, reason string) bool {
//@   return err is ErrInvalidValue && ErrInvalidValue(err).Key == key && ErrInvalidValue(err).Reason == reason
//@ }
//@ pure func IsParsing(err error, tag string) bool {
//@   return err is ErrParsing && ErrParsing(err).Tag == tag
//@ }
//@ pure func IssuerErr(sp *SAMLServiceProvider, i *types.Issuer, err error) bool {
//@   return (i == nil && IsMissing(err, IssuerTag, ""))
//@       || (i != nil && sp.IdentityProviderIssuer != "" && i.Value != sp.IdentityProviderIssuer && IsInvalid(err, IssuerTag))
//@ }
//@ pure func StatusErr(s *types.Status, err error) bool {
//@   return (s == nil && IsMissing(err, StatusTag, ""))
//@       || (s != nil && s.StatusCode == nil && IsMissing(err, StatusCodeTag, ""))
//@       || (s != nil && s.StatusCode != nil && s.StatusCode.Value != StatusCodeSuccess && IsInvalid(err, StatusCodeTag))
//@ }
//@ pure func AttrsErr(d string, version string, expected string, err error) bool {
//@   return (!DestOK(d, expected) && IsInvalid(err, DestinationAttr))
//@       || (version != "2.0" && IsInvalidR(err, "SAML version", ReasonUnsupported))
//@ }
//@ pure func AssertionErr(sp *SAMLServiceProvider, a types.Assertion, err error) bool {
//@   return IssuerErr(sp, a.Issuer, err)
//@     || (a.Subject == nil && IsMissing(err, SubjectTag, ""))
//@     || (a.Subject != nil && a.Subject.SubjectConfirmation == nil && IsMissing(err, SubjectConfirmationTag, ""))
//@     || (a.Subject != nil && a.Subject.SubjectConfirmation != nil && a.Subject.SubjectConfirmation.Method != SubjMethodBearer
//@            && IsInvalidR(err, SubjectConfirmationTag, ReasonUnsupported))
//@     || (a.Subject != nil && a.Subject.SubjectConfirmation != nil && SCD(a) == nil && IsMissing(err, SubjectConfirmationDataTag, ""))
//@     || (a.Subject != nil && a.Subject.SubjectConfirmation != nil && SCD(a) != nil
//@          && (   (SCD(a).Recipient != sp.AssertionConsumerServiceURL && IsInvalid(err, RecipientAttr))
//@              || (SCD(a).NotOnOrAfter == "" && IsMissing(err, SubjectConfirmationDataTag, NotOnOrAfterAttr))
//@              || (!parseOK(SCD(a).NotOnOrAfter) && IsParsing(err, NotOnOrAfterAttr))
//@              || (parseOK(SCD(a).NotOnOrAfter) && now(sp.Clock) >= instantOf(SCD(a).NotOnOrAfter) && IsInvalidR(err, NotOnOrAfterAttr, ReasonExpired))))
//@ }

//@ func (sp *SAMLServiceProvider) validateResponseAttributes(response *types.Response) (err error)
//@   requires sp != nil && response != nil
//@   safety [C09]
//@   frame [C17]
//@   assigns nothing
//@   ensures [C03] iff: err == nil <==> ResponseAttrsOK(sp, response)
//@   ensures [C03] errkind: err != nil ==> AttrsErr(response.Destination, response.Version, sp.AssertionConsumerServiceURL, err)

//@ func (sp *SAMLServiceProvider) Validate(response *types.Response) (err error)
//@   requires sp != nil && response != nil
//@   safety [C09]
//@   frame [C17]
//@   assigns nothing
//@   ensures [C03] sound: err == nil ==> ProfileOK(sp, response)
//@   ensures [C08] complete: ProfileOK(sp, response) ==> err == nil
//@   ensures [C05] expiry: err == nil ==> forall k int :: 0 <= k && k < len(response.Assertions) ==>
//@        SCD(response.Assertions[k]) != nil && NotExpired(sp, response.Assertions[k])
//@   ensures [C05] expired.kind: IsInvalidR(err, NotOnOrAfterAttr, ReasonExpired) ==>
//@        exists k int :: 0 <= k && k < len(response.Assertions) && response.Assertions[k].Subject != nil
//@          && response.Assertions[k].Subject.SubjectConfirmation != nil && SCD(response.Assertions[k]) != nil
//@          && parseOK(SCD(response.Assertions[k]).NotOnOrAfter) && now(sp.Clock) >= instantOf(SCD(response.Assertions[k]).NotOnOrAfter)
//@   ensures [C03] errkind: err != nil ==>
//@        AttrsErr(response.Destination, response.Version, sp.AssertionConsumerServiceURL, err)
//@     || (len(response.Assertions) == 0 && err == ErrMissingAssertion)
//@     || IssuerErr(sp, response.Issuer, err)
//@     || StatusErr(response.Status, err)
//@     || exists k int :: 0 <= k && k < len(response.Assertions) && AssertionErr(sp, response.Assertions[k], err)
//@   loop 0
//@     invariant [C03, C05] prefix: forall k int :: 0 <= k && k < $i ==> AssertionOK(sp, response.Assertions[k])

// ---------------------------------------------------------------------------
// Logout message checks (C10)
// ---------------------------------------------------------------------------

//@ pure func LogoutRespOK(sp *SAMLServiceProvider, r *types.LogoutResponse) bool {
//@   return DestOK(r.Destination, sp.ServiceProviderSLOURL) && r.Version == "2.0" && IssuerOK(sp, r.Issuer) && StatusOK(r.Status)
//@ }
//@ pure func LogoutReqOK(sp *SAMLServiceProvider, q *LogoutRequest) bool {
//@   return DestOK(q.Destination, sp.ServiceProviderSLOURL) && q.Version == "2.0" && IssuerOK(sp, q.Issuer)
//@ }

//@ func (sp *SAMLServiceProvider) validateLogoutResponseAttributes(response *types.LogoutResponse) (err error)
//@   requires sp != nil && response != nil
//@   safety [C09]
//@   frame [C17]
//@   assigns nothing
//@   ensures [C10] iff: err == nil <==> (DestOK(response.Destination, sp.ServiceProviderSLOURL) && response.Version == "2.0")
//@   ensures [C10] errkind: err != nil ==> AttrsErr(response.Destination, response.Version, sp.ServiceProviderSLOURL, err)

//@ func (sp *SAMLServiceProvider) validateLogoutRequestAttributes(request *LogoutRequest) (err error)
//@   requires sp != nil && request != nil
//@   safety [C09]
//@   frame [C17]
//@   assigns nothing
//@   ensures [C10] iff: err == nil <==> (DestOK(request.Destination, sp.ServiceProviderSLOURL) && request.Version == "2.0")
//@   ensures [C10] errkind: err != nil ==> AttrsErr(request.Destination, request.Version, sp.ServiceProviderSLOURL, err)

//@ func (sp *SAMLServiceProvider) ValidateDecodedLogoutResponse(response *types.LogoutResponse) (err error)
//@   requires sp != nil && response != nil
//@   safety [C09]
//@   frame [C17]
//@   assigns nothing
//@   ensures [C10] iff: err == nil <==> LogoutRespOK(sp, response)
//@   ensures [C10] errkind: err != nil ==>
//@        AttrsErr(response.Destination, response.Version, sp.ServiceProviderSLOURL, err)
//@     || IssuerErr(sp, response.Issuer, err) || StatusErr(response.Status, err)

//@ func (sp *SAMLServiceProvider) ValidateDecodedLogoutRequest(request *LogoutRequest) (err error)
//@   requires sp != nil && request != nil
//@   safety [C09]
//@   frame [C17]
//@   assigns nothing
//@   ensures [C10] iff: err == nil <==> LogoutReqOK(sp, request)
//@   ensures [C10] errkind: err != nil ==>
//@        AttrsErr(request.Destination, request.Version, sp.ServiceProviderSLOURL, err)
//@     || IssuerErr(sp, request.Issuer, err)

// ---------------------------------------------------------------------------
// attribute.go (C08): accessors return first value / all values in order / count; empty for absent or nil
// ---------------------------------------------------------------------------

//@ pure func HasValues(vals Values, k string) bool {
//@   return vals != nil && has(vals, k) && len(vals[k].Values) > 0
//@ }

//@ func (vals Values) Get(k string) (result string)
//@   safety [C09]
//@   frame [C17]
//@   assigns nothing
//@   ensures [C08] first: HasValues(vals, k) ==> result == vals[k].Values[0].Value
//@   ensures [C08] absent: !HasValues(vals, k) ==> result == ""

//@ func (vals Values) GetSize(k string) (result int)
//@   safety [C09]
//@   frame [C17]
//@   assigns nothing
//@   ensures [C08] count: (vals != nil && has(vals, k)) ==> result == len(vals[k].Values)
//@   ensures [C08] absent: !(vals != nil && has(vals, k)) ==> result == 0

//@ func (vals Values) GetAll(k string) (result []string)
//@   safety [C09]
//@   frame [C17]
//@   assigns nothing
//@   ensures [C08] len: HasValues(vals, k) ==> len(result) == len(vals[k].Values)
//@   ensures [C08] values: HasValues(vals, k) ==> forall j int :: 0 <= j && j < len(vals[k].Values) ==> result[j] == vals[k].Values[j].Value
//@   ensures [C08] absent: !HasValues(vals, k) ==> result == nil
//@   loop 0
//@     invariant [C08] bound: 0 <= $i && $i <= len(v.Values)
//@     invariant [C08] len: len(av) == $i
//@     invariant [C08] empty: $i == 0 ==> av == nil
//@     invariant [C08] values: forall j int :: 0 <= j && j < $i ==> av[j] == v.Values[j].Value

// ---------------------------------------------------------------------------
// decode_response.go / decode_logout_request.go: provenance (C01 C02 C04 C07 C10), totality (C09), limits (C12)
// ---------------------------------------------------------------------------

// $src: the element a decoded struct was unmarshalled from (set only through xml.Unmarshal's contract).
//@ ghost field types.Response.$src *etree.Element
//@ ghost field types.Assertion.$src *etree.Element
//@ ghost field types.LogoutResponse.$src *etree.Element
//@ ghost field LogoutRequest.$src *etree.Element
//@ ghost field types.EncryptedAssertion.$src *etree.Element
//@ ghost field types.UnverifiedBaseResponse.$src *etree.Element

//@ func (sp *SAMLServiceProvider) validationContext() (ctx *dsig.ValidationContext)
//@   requires sp != nil
//@   safety [C09]
//@   frame [C17]
//@   assigns nothing
//@   ensures [C02, C01, C08] store: ctx != nil && ctx.CertificateStore == sp.IDPCertificateStore
//@   ensures [C02] clock: ctx.Clock == sp.Clock
//@   fresh [C02, C01, C17] ctx

//@ func (sp *SAMLServiceProvider) validateElementSignature(el *etree.Element) (result *etree.Element, err error)
//@   requires sp != nil && el != nil
//@   requires [C09] store: sp.IDPCertificateStore != nil
//@   safety [C09]
//@   frame [C17]
//@   assigns nothing
//@   fresh result when err == nil
//@   ensures [C02, C01] good: err == nil <==> sigState(el, sp.IDPCertificateStore, sp.Clock) == 1
//@   ensures [C02, C01] missing: err == dsig.ErrMissingSignature <==> sigState(el, sp.IDPCertificateStore, sp.Clock) == 0
//@   ensures [C02, C01, C04] verified: err == nil ==> result != nil && Verified(result, sp.IDPCertificateStore, sp.Clock) && validatedFrom(result) == el && result.parent != nil
//@   ensures [C09] xor: err != nil ==> result == nil

//@ func xmlUnmarshalElement(el *etree.Element, obj any) (err error)
//@   requires el != nil && !(obj is *etree.Element) && !(obj is *etree.Document)
//@   requires [C01, C03, C04, C08] zero.response: obj is *types.Response ==> *obj.(*types.Response) == types.Response{}
//@   requires [C01, C03, C04, C08] zero.assertion: obj is *types.Assertion ==> *obj.(*types.Assertion) == types.Assertion{}
//@   requires [C10, C04, C20] zero.logoutresponse: obj is *types.LogoutResponse ==> *obj.(*types.LogoutResponse) == types.LogoutResponse{}
//@   requires [C20] zero.unverified: obj is *types.UnverifiedBaseResponse ==> *obj.(*types.UnverifiedBaseResponse) == types.UnverifiedBaseResponse{}
//@   requires [C10, C04] zero.logoutrequest: obj is *LogoutRequest ==> *obj.(*LogoutRequest) == LogoutRequest{}
//@   requires [C07] zero.encrypted: obj is *types.EncryptedAssertion ==> *obj.(*types.EncryptedAssertion) == types.EncryptedAssertion{}
//@   safety [C09]
//@   assigns *obj, el.parent.Child, el.parent, el.index, all etree.Document.$root
//@   ensures [C01, C04] src.response: err == nil && obj is *types.Response ==> obj.(*types.Response).$src == el
//@   ensures [C01, C04] src.assertion: err == nil && obj is *types.Assertion ==> obj.(*types.Assertion).$src == el
//@   ensures [C10, C04] src.logoutresponse: err == nil && obj is *types.LogoutResponse ==> obj.(*types.LogoutResponse).$src == el
//@   ensures [C10, C04] src.logoutrequest: err == nil && obj is *LogoutRequest ==> obj.(*LogoutRequest).$src == el
//@   ensures [C07] src.encrypted: err == nil && obj is *types.EncryptedAssertion ==> obj.(*types.EncryptedAssertion).$src == el
//@   ensures [C04] flag.response: obj is *types.Response ==> !obj.(*types.Response).SignatureValidated
//@   ensures [C04] flag.assertions: obj is *types.Response ==> forall k int :: 0 <= k && k < len(obj.(*types.Response).Assertions) ==> !obj.(*types.Response).Assertions[k].SignatureValidated
//@   ensures [C04] flag.assertion: obj is *types.Assertion ==> !obj.(*types.Assertion).SignatureValidated
//@   ensures [C04] flag.logoutresponse: obj is *types.LogoutResponse ==> !obj.(*types.LogoutResponse).SignatureValidated
//@   ensures [C04] flag.logoutrequest: obj is *LogoutRequest ==> !obj.(*LogoutRequest).SignatureValidated
//@   ensures [C09] rooted: el.parent != nil
//@   ensures [C20, C08] docroot: el.parent.parent == nil
//@   ensures [C01, C02] nosentinel: err != etreeutils.ErrTraversalHalted && err != dsig.ErrMissingSignature

//@ pure func EffLimit(maxSize int64) int64 {
//@   return maxSize == 0 ? 5242880 : maxSize
//@ }
//@ pure func ReadLimit(maxSize int64) int64 {
//@   return EffLimit(maxSize) < 9223372036854775807 ? EffLimit(maxSize) + 1 : EffLimit(maxSize)
//@ }
//@ pure func Inflated(data []byte, maxSize int64) io.Reader {
//@   return limited(flateOf(bytesReader(data)), ReadLimit(maxSize))
//@ }

// maybeDeflate (C12): raw first; otherwise inflate at most limit+1 bytes, reject above the limit,
// and run the same decoder on the inflated bytes. apply(decoder, b) is the decoder's verdict on b.
//@ func maybeDeflate(data []byte, maxSize int64, decoder func([]byte) error) (err error)
//@   requires decoder != nil && maxSize >= 0
//@   inline
//@   safety [C09]
//@   ensures [C12] raw: apply(decoder, data) == nil ==> err == nil
//@   ensures [C12] readerr: apply(decoder, data) != nil && readAllErr(Inflated(data, maxSize)) ==> err != nil
//@   ensures [C12] overlimit: apply(decoder, data) != nil && !readAllErr(Inflated(data, maxSize))
//@        && len(readAllOf(Inflated(data, maxSize))) > EffLimit(maxSize) ==> err != nil
//@   ensures [C12] within: apply(decoder, data) != nil && !readAllErr(Inflated(data, maxSize))
//@        && len(readAllOf(Inflated(data, maxSize))) <= EffLimit(maxSize) ==> err == apply(decoder, readAllOf(Inflated(data, maxSize)))

//@ func parseResponse(xml []byte, maxSize int64) (doc *etree.Document, el *etree.Element, err error)
//@   requires maxSize >= 0
//@   safety [C09]
//@   fresh [C09] doc when err == nil
//@   ensures [C09] ok: err == nil ==> doc != nil && el != nil && el == doc.$root && el.parent != nil
//@   ensures [C09] fail: err != nil ==> doc == nil && el == nil
//@   ensures [C01, C12, C08] roundtrip: err == nil ==> RoundTripStable(doc.$bytes)
//@   ensures [C12] source: err == nil ==> doc.$bytes == xml || doc.$bytes == readAllOf(Inflated(xml, maxSize))
//@   ensures [C12] limit: err == nil && doc.$bytes != xml ==> len(doc.$bytes) <= EffLimit(maxSize)

// ---------------------------------------------------------------------------
// Decryption key selection (C07 C11 C19) and decryptAssertions (C07 C09)
// ---------------------------------------------------------------------------

// Configuration invariant sp.valid(): a key store installed through a setter has a non-nil signer
// (the setters are the only writers of the override fields), and no key store holds a typed-nil RSA key.
// (KeyOK is defined in types/contracts_verif.go.)
//@ pure func SPValid(sp *SAMLServiceProvider) bool {
//@   return sp != nil && sp.MaximumDecompressedBodySize >= 0
//@       && (sp.spKeyStoreOverride != nil ==> sp.spKeyStoreOverride.Signer != nil && KeyOK(sp.spKeyStoreOverride.Signer))
//@       && (sp.spSigningKeyStoreOverride != nil ==> sp.spSigningKeyStoreOverride.Signer != nil)
//@       && (sp.SPKeyStore is dsig.TLSCertKeyStore ==> KeyOK(sp.SPKeyStore.(dsig.TLSCertKeyStore).PrivateKey))
//@       && (sp.SPKeyStore != nil ==> kpKey(sp.SPKeyStore) != nil || kpErr(sp.SPKeyStore) != nil)
//@ }
//@ pure func HasDecryptKey(sp *SAMLServiceProvider) bool {
//@   return sp.spKeyStoreOverride != nil || sp.SPKeyStore != nil
//@ }
//@ pure func CertWindowOK(sp *SAMLServiceProvider, der []byte) bool {
//@   return x509ok(der) && x509NotBefore(der) <= now(sp.Clock) && now(sp.Clock) <= x509NotAfter(der)
//@ }

// The key-store setters establish the part of the configuration invariant SPValid that concerns them (a stored
// setter key store has a signer) and store the key where the getters, decryption and signing look for it.
//@ func (sp *SAMLServiceProvider) SetSPKeyStore(ks *KeyStore) (err error)
//@   requires sp != nil && (sp.spKeyStoreOverride != nil ==> sp.spKeyStoreOverride.Signer != nil)
//@   safety [C09]
//@   assigns sp.spKeyStoreOverride
//@   ensures [C11, C19] accepted: err == nil <==> (ks == nil || ks.Signer != nil)
//@   ensures [C11, C19] stored: err == nil ==> sp.spKeyStoreOverride == ks
//@   ensures [C11, C19] refused: err != nil ==> sp.spKeyStoreOverride == old(sp.spKeyStoreOverride)
//@   ensures [C09, C11] invariant: sp.spKeyStoreOverride != nil ==> sp.spKeyStoreOverride.Signer != nil

//@ func (sp *SAMLServiceProvider) SetSPSigningKeyStore(ks *KeyStore) (err error)
//@   requires sp != nil && (sp.spSigningKeyStoreOverride != nil ==> sp.spSigningKeyStoreOverride.Signer != nil)
//@   safety [C09]
//@   assigns sp.spSigningKeyStoreOverride
//@   ensures [C13, C19] accepted: err == nil <==> (ks == nil || ks.Signer != nil)
//@   ensures [C13, C19] stored: err == nil ==> sp.spSigningKeyStoreOverride == ks
//@   ensures [C13, C19] refused: err != nil ==> sp.spSigningKeyStoreOverride == old(sp.spSigningKeyStoreOverride)
//@   ensures [C09, C13] invariant: sp.spSigningKeyStoreOverride != nil ==> sp.spSigningKeyStoreOverride.Signer != nil

//@ func (sp *SAMLServiceProvider) getDecryptCert() (cert *tls.Certificate, err error)
//@   requires SPValid(sp)
//@   safety [C09]
//@   frame [C17]
//@   assigns nothing
//@   fresh [C09] cert when err == nil
//@   ensures [C09] xor: (cert != nil) != (err != nil)
//@   ensures [C09] keyok: err == nil ==> KeyOK(cert.PrivateKey)
//@   ensures [C11, C19] nokey: !HasDecryptKey(sp) ==> err != nil
//@   ensures [C11, C19] setter: err == nil && sp.spKeyStoreOverride != nil ==>
//@        cert.PrivateKey == sp.spKeyStoreOverride.Signer && len(cert.Certificate) == 1 && cert.Certificate[0] == sp.spKeyStoreOverride.Cert
//@   ensures [C11, C19] field.tls: err == nil && sp.spKeyStoreOverride == nil && sp.SPKeyStore is dsig.TLSCertKeyStore ==>
//@        cert.PrivateKey == sp.SPKeyStore.(dsig.TLSCertKeyStore).PrivateKey && cert.Certificate == sp.SPKeyStore.(dsig.TLSCertKeyStore).Certificate
//@   ensures [C11, C19] field.pair: err == nil && sp.spKeyStoreOverride == nil && !(sp.SPKeyStore is dsig.TLSCertKeyStore) ==>
//@        cert.PrivateKey == kpKey(sp.SPKeyStore) && len(cert.Certificate) == 1 && cert.Certificate[0] == kpCert(sp.SPKeyStore)
//@   ensures [C07] window: err == nil && sp.ValidateEncryptionCert ==>
//@        len(cert.Certificate) >= 1 && len(cert.Certificate[0]) >= 1 && CertWindowOK(sp, cert.Certificate[0])
//@   ensures [C07, C11] novalidation: !sp.ValidateEncryptionCert && sp.spKeyStoreOverride != nil ==> err == nil
//@   ensures [C07, C11] novalidation.field: !sp.ValidateEncryptionCert && sp.spKeyStoreOverride == nil && sp.SPKeyStore != nil
//@        && (sp.SPKeyStore is dsig.TLSCertKeyStore || kpErr(sp.SPKeyStore) == nil) ==> err == nil

// decryptAssertions replaces every EncryptedAssertion that is a direct child of el by the parse of its
// plaintext. It confers no trust: nothing it adds is marked verified (Verified comes only from Validate).
// Whatever it adds under el is a saml:Assertion element (C20, C08): no other Response-level child (Issuer, Status,
// ...) can come out of a ciphertext, so the Response-level values decoded afterwards are those of the wire document.
//@ func (sp *SAMLServiceProvider) decryptAssertions(el *etree.Element) (err error)
//@   requires SPValid(sp) && el != nil && el.parent != nil
//@   safety [C09]
//@   frame [C17]
//@   assigns all etree.Element.Child, all etree.Element.parent, all etree.Element.index, all etree.Document.$root
//@   iter 0
//@     invariant [C09] certok: decryptCert != nil ==> KeyOK(decryptCert.PrivateKey)
//@     invariant [C09] rooted: el.parent != nil
//@     visit [C07, C01] direct: old($m.parent) == el
//@     visit [C20, C08] assertion.only: forall e *etree.Element :: e.parent == el && old(e.parent) != el ==> e.Tag == AssertionTag && nsURI(e) == SAMLAssertionNamespace
//@     nohalt [C11, C07]

// ---------------------------------------------------------------------------
// Inbound entry points
// ---------------------------------------------------------------------------

// Entry-point configuration: everything may be nil/empty. That a certificate store is supplied is C09's own wording
// and is assumed for C09 only (`requires [C09] store`): for the other properties acceptance without a store has to be
// shown impossible, not assumed away.
//@ pure func InboundOK(sp *SAMLServiceProvider) bool {
//@   return SPValid(sp)
//@ }
//@ pure func AllAssertionsValidated(sp *SAMLServiceProvider, r *types.Response) bool {
//@   return forall k int :: 0 <= k && k < len(r.Assertions) ==>
//@       r.Assertions[k].SignatureValidated && Verified(r.Assertions[k].$src, sp.IDPCertificateStore, sp.Clock)
//@ }
//@ pure func AllMatchesSigned(sp *SAMLServiceProvider, root *etree.Element, n int) bool {
//@   return forall j int :: 0 <= j && j < n ==>
//@       sigState(detachOf(MatchAt(root, SAMLAssertionNamespace, AssertionTag, j)), sp.IDPCertificateStore, sp.Clock) == 1
//@ }

//@ func (sp *SAMLServiceProvider) ValidateEncodedResponse(encodedResponse string) (res *types.Response, err error)
//@   requires InboundOK(sp)
//@   requires [C09] store: sp.IDPCertificateStore != nil
//@   ensures [C17] config: *sp == old(*sp)
//@   safety [C09]
//@   fresh [C17] res when err == nil
//@   ensures [C09] xor: (res != nil) != (err != nil)
//@   ensures [C03] profile: err == nil ==> ProfileOK(sp, res)
//@   ensures [C04] skip.response: err == nil && sp.SkipSignatureValidation ==> !res.SignatureValidated
//@   ensures [C04] skip.assertions: err == nil && sp.SkipSignatureValidation ==>
//@        forall k int :: 0 <= k && k < len(res.Assertions) ==> !res.Assertions[k].SignatureValidated
//@   ensures [C01, C04, C08] signed.verified: err == nil && !sp.SkipSignatureValidation && res.SignatureValidated ==>
//@        Verified(res.$src, sp.IDPCertificateStore, sp.Clock)
//@   ensures [C01, C02, C04] signed.root: err == nil && !sp.SkipSignatureValidation && res.SignatureValidated ==>
//@        sigState(validatedFrom(res.$src), sp.IDPCertificateStore, sp.Clock) == 1
//@   ensures [C01, C02] unsigned.root: err == nil && !sp.SkipSignatureValidation && !res.SignatureValidated ==>
//@        sigState(res.$src, sp.IDPCertificateStore, sp.Clock) == 0
//@   ensures [C01, C04] unsigned.assertions: err == nil && !sp.SkipSignatureValidation && !res.SignatureValidated ==>
//@        AllAssertionsValidated(sp, res)
//@   ensures [C01, C02] unsigned.allsigned: err == nil && !sp.SkipSignatureValidation && !res.SignatureValidated ==>
//@        AllMatchesSigned(sp, res.$src, NMatch(res.$src, SAMLAssertionNamespace, AssertionTag))
//@   exit [C12] limit: err == nil ==> b64ok(encodedResponse) && raw == b64dec(encodedResponse)
//@        && (doc.$bytes == raw || doc.$bytes == readAllOf(Inflated(raw, sp.MaximumDecompressedBodySize)))
//@   exit [C03] typed: lasterr(SAMLServiceProvider.Validate) != nil ==> err == lasterr(SAMLServiceProvider.Validate)
//@   iter 0
//@     invariant [C01, C04] validated: AllAssertionsValidated(sp, decodedResponse)
//@     invariant [C01, C02] allsigned: AllMatchesSigned(sp, unverifiedResponse, $k)
//@     invariant [C04] flag: !decodedResponse.SignatureValidated
//@     invariant [C01] src: decodedResponse.$src == unverifiedResponse
//@     visit [C01] direct: old($m.parent) == unverifiedResponse
//@     nohalt [C01, C08]

//@ func (sp *SAMLServiceProvider) ValidateEncodedLogoutResponsePOST(encodedResponse string) (res *types.LogoutResponse, err error)
//@   requires InboundOK(sp)
//@   requires [C09] store: sp.IDPCertificateStore != nil
//@   ensures [C17] config: *sp == old(*sp)
//@   safety [C09]
//@   fresh [C17] res when err == nil
//@   ensures [C09] xor: (res != nil) != (err != nil)
//@   ensures [C10] checks: err == nil ==> LogoutRespOK(sp, res)
//@   ensures [C04, C10] skip: err == nil && sp.SkipSignatureValidation ==> !res.SignatureValidated
//@   ensures [C04, C10] flag.verified: err == nil && res.SignatureValidated ==> Verified(res.$src, sp.IDPCertificateStore, sp.Clock)
//@   ensures [C02, C04, C10] flag.good: err == nil && res.SignatureValidated ==> sigState(validatedFrom(res.$src), sp.IDPCertificateStore, sp.Clock) == 1
//@   ensures [C02, C04, C10] flag.missing: err == nil && !sp.SkipSignatureValidation && !res.SignatureValidated ==> sigState(res.$src, sp.IDPCertificateStore, sp.Clock) == 0
//@   exit [C12] limit: err == nil ==> b64ok(encodedResponse) && raw == b64dec(encodedResponse)
//@        && (doc.$bytes == raw || doc.$bytes == readAllOf(Inflated(raw, sp.MaximumDecompressedBodySize)))
//@   exit [C10] typed: lasterr(SAMLServiceProvider.ValidateDecodedLogoutResponse) != nil ==> err == lasterr(SAMLServiceProvider.ValidateDecodedLogoutResponse)

//@ func (sp *SAMLServiceProvider) ValidateEncodedLogoutRequestPOST(encodedRequest string) (res *LogoutRequest, err error)
//@   requires InboundOK(sp)
//@   requires [C09] store: sp.IDPCertificateStore != nil
//@   ensures [C17] config: *sp == old(*sp)
//@   safety [C09]
//@   fresh [C17] res when err == nil
//@   ensures [C09] xor: (res != nil) != (err != nil)
//@   ensures [C10] checks: err == nil ==> LogoutReqOK(sp, res)
//@   ensures [C04, C10] skip: err == nil && sp.SkipSignatureValidation ==> !res.SignatureValidated
//@   ensures [C04, C10] flag.verified: err == nil && res.SignatureValidated ==> Verified(res.$src, sp.IDPCertificateStore, sp.Clock)
//@   ensures [C02, C04, C10] flag.good: err == nil && res.SignatureValidated ==> sigState(validatedFrom(res.$src), sp.IDPCertificateStore, sp.Clock) == 1
//@   ensures [C02, C04, C10] flag.missing: err == nil && !sp.SkipSignatureValidation && !res.SignatureValidated ==> sigState(res.$src, sp.IDPCertificateStore, sp.Clock) == 0
//@   exit [C12] limit: err == nil ==> b64ok(encodedRequest) && raw == b64dec(encodedRequest)
//@        && (doc.$bytes == raw || doc.$bytes == readAllOf(Inflated(raw, sp.MaximumDecompressedBodySize)))
//@   exit [C10] typed: lasterr(SAMLServiceProvider.ValidateDecodedLogoutRequest) != nil ==> err == lasterr(SAMLServiceProvider.ValidateDecodedLogoutRequest)

// The unverified decoders (C20, C12): no key or configuration input; raw first, then the inflation limited to
// the fixed 5 MiB; what is decoded is exactly the raw bytes or that inflation.
//@ pure func UnverifiedInflation(raw []byte) []byte {
//@   return readAllOf(Inflated(raw, 5242880))
//@ }
//@ pure func InflationUsable(raw []byte) bool {
//@   return !readAllErr(Inflated(raw, 5242880)) && len(UnverifiedInflation(raw)) <= 5242880
//@ }
//@ func DecodeUnverifiedBaseResponse(encodedResponse string) (res *types.UnverifiedBaseResponse, err error)
//@   safety [C09]
//@   ensures [C09] xor: (res != nil) != (err != nil)
//@   ensures [C20] b64: err == nil ==> b64ok(encodedResponse)
//@   ensures [C20] rawfirst: b64ok(encodedResponse) && decodesAs(b64dec(encodedResponse), 1) ==> err == nil && res.$src == serOf(b64dec(encodedResponse))
//@   ensures [C20, C12] inflated: b64ok(encodedResponse) && !decodesAs(b64dec(encodedResponse), 1) && InflationUsable(b64dec(encodedResponse))
//@        && decodesAs(UnverifiedInflation(b64dec(encodedResponse)), 1) ==> err == nil && res.$src == serOf(UnverifiedInflation(b64dec(encodedResponse)))
//@   ensures [C20, C12] overlimit: b64ok(encodedResponse) && !decodesAs(b64dec(encodedResponse), 1) && !InflationUsable(b64dec(encodedResponse)) ==> err != nil
//@   ensures [C20] source: err == nil ==> res.$src == serOf(b64dec(encodedResponse)) || res.$src == serOf(UnverifiedInflation(b64dec(encodedResponse)))

//@ func DecodeUnverifiedLogoutResponse(encodedResponse string) (res *types.LogoutResponse, err error)
//@   safety [C09]
//@   ensures [C09] xor: (res != nil) != (err != nil)
//@   ensures [C20] b64: err == nil ==> b64ok(encodedResponse)
//@   ensures [C20] rawfirst: b64ok(encodedResponse) && decodesAs(b64dec(encodedResponse), 2) ==> err == nil && res.$src == serOf(b64dec(encodedResponse))
//@   ensures [C20, C12] inflated: b64ok(encodedResponse) && !decodesAs(b64dec(encodedResponse), 2) && InflationUsable(b64dec(encodedResponse))
//@        && decodesAs(UnverifiedInflation(b64dec(encodedResponse)), 2) ==> err == nil && res.$src == serOf(UnverifiedInflation(b64dec(encodedResponse)))
//@   ensures [C20, C12] overlimit: b64ok(encodedResponse) && !decodesAs(b64dec(encodedResponse), 2) && !InflationUsable(b64dec(encodedResponse)) ==> err != nil
//@   ensures [C20] source: err == nil ==> res.$src == serOf(b64dec(encodedResponse)) || res.$src == serOf(UnverifiedInflation(b64dec(encodedResponse)))

//@ func (sp *SAMLServiceProvider) RetrieveAssertionInfo(encodedResponse string) (info *AssertionInfo, err error)
//@   requires InboundOK(sp)
//@   requires [C09] store: sp.IDPCertificateStore != nil
//@   ensures [C17] config: *sp == old(*sp)
//@   safety [C09]
//@   ensures [C09] xor: (info != nil) != (err != nil)
//@   ensures [C04] skip: err == nil && sp.SkipSignatureValidation ==> !info.ResponseSignatureValidated
//@   ensures [C01, C04] unsigned: err == nil && !sp.SkipSignatureValidation && !info.ResponseSignatureValidated ==>
//@        forall k int :: 0 <= k && k < len(info.Assertions) ==>
//@            info.Assertions[k].SignatureValidated && Verified(info.Assertions[k].$src, sp.IDPCertificateStore, sp.Clock)
//@   exit [C03] wrapped: response == nil ==> err is ErrVerification && ErrVerification(err).Cause != nil
//@   exit [C03] cause: lasterr(SAMLServiceProvider.ValidateEncodedResponse) != nil ==>
//@        err is ErrVerification && ErrVerification(err).Cause == lasterr(SAMLServiceProvider.ValidateEncodedResponse)
//@   exit [C08] values: err == nil && response.Assertions[0].AttributeStatement != nil ==>
//@        forall j int :: 0 <= j && j < len(response.Assertions[0].AttributeStatement.Attributes) ==>
//@            has(assertionInfo.Values, response.Assertions[0].AttributeStatement.Attributes[j].Name)
//@   exit [C08] values.unique: err == nil && response.Assertions[0].AttributeStatement != nil ==>
//@        forall j int :: 0 <= j && j < len(response.Assertions[0].AttributeStatement.Attributes) ==>
//@            (forall i int :: j < i && i < len(response.Assertions[0].AttributeStatement.Attributes) ==>
//@                 response.Assertions[0].AttributeStatement.Attributes[i].Name != response.Assertions[0].AttributeStatement.Attributes[j].Name)
//@            ==> assertionInfo.Values[response.Assertions[0].AttributeStatement.Attributes[j].Name] == response.Assertions[0].AttributeStatement.Attributes[j]
//@   exit [C04] mirror: err == nil ==> assertionInfo.ResponseSignatureValidated == response.SignatureValidated
//@   exit [C01, C08] assertions: err == nil ==> assertionInfo.Assertions == response.Assertions
//@   exit [C03] profile: err == nil ==> ProfileOK(sp, response)
//@   exit [C05, C06] warnings: err == nil ==> CondWellFormed(response.Assertions[0].Conditions)
//@        && WarningsMirror(sp, response.Assertions[0].Conditions, assertionInfo.WarningInfo)
//@   exit [C08, C01] nameid: err == nil ==> assertionInfo.NameID == response.Assertions[0].Subject.NameID.Value
//@   loop 0
//@     invariant [C08] present: forall j int :: 0 <= j && j < $i ==> has(assertionInfo.Values, attributeStatement.Attributes[j].Name)
//@     invariant [C08] last: forall j int :: 0 <= j && j < $i ==>
//@          (forall i int :: j < i && i < $i ==> attributeStatement.Attributes[i].Name != attributeStatement.Attributes[j].Name)
//@          ==> assertionInfo.Values[attributeStatement.Attributes[j].Name] == attributeStatement.Attributes[j]
//@   exit [C08, C01] session: err == nil && response.Assertions[0].AuthnStatement != nil ==>
//@        assertionInfo.SessionIndex == response.Assertions[0].AuthnStatement.SessionIndex
//@        && assertionInfo.AuthnInstant == response.Assertions[0].AuthnStatement.AuthnInstant
//@        && assertionInfo.SessionNotOnOrAfter == response.Assertions[0].AuthnStatement.SessionNotOnOrAfter
// Session values come from the (signed) assertion only: without an AuthnStatement none is reported -- in particular
// nothing is taken from the Response level, which is unauthenticated when only the assertions are signed.
//@   exit [C08, C01] nosession: err == nil && response.Assertions[0].AuthnStatement == nil ==>
//@        assertionInfo.SessionIndex == "" && assertionInfo.AuthnInstant == nil && assertionInfo.SessionNotOnOrAfter == nil

// ---------------------------------------------------------------------------
// saml.go: key selection (C11 C13 C19), signing context (C13 C17), metadata (C19)
// ---------------------------------------------------------------------------

// The specification side is written once, from the property statements:
// signing key = explicit signing key if any (setter, then field), else the encryption key (setter, then field).
//@ pure func HasSignKey(sp *SAMLServiceProvider) bool {
//@   return sp.spSigningKeyStoreOverride != nil || sp.SPSigningKeyStore != nil || sp.spKeyStoreOverride != nil || sp.SPKeyStore != nil
//@ }
//@ pure func EncCertOf(sp *SAMLServiceProvider) []byte {
//@   return sp.spKeyStoreOverride != nil ? sp.spKeyStoreOverride.Cert : (sp.SPKeyStore != nil ? kpCert(sp.SPKeyStore) : nil)
//@ }
//@ pure func EncCertErr(sp *SAMLServiceProvider) error {
//@   return sp.spKeyStoreOverride != nil ? nil : (sp.SPKeyStore != nil ? kpErr(sp.SPKeyStore) : nil)
//@ }
//@ pure func SignCertOf(sp *SAMLServiceProvider) []byte {
//@   return sp.spSigningKeyStoreOverride != nil ? sp.spSigningKeyStoreOverride.Cert
//@        : (sp.SPSigningKeyStore != nil ? kpCert(sp.SPSigningKeyStore) : EncCertOf(sp))
//@ }
//@ pure func SignCertErr(sp *SAMLServiceProvider) error {
//@   return sp.spSigningKeyStoreOverride != nil ? nil
//@        : (sp.SPSigningKeyStore != nil ? kpErr(sp.SPSigningKeyStore) : EncCertErr(sp))
//@ }
// certificate a signing context embeds / verifies with
//@ pure func CtxCert(ctx *dsig.SigningContext) []byte {
//@   return ctx.KeyStore != nil ? kpCert(ctx.KeyStore) : ctx.certs[0]
//@ }

//@ func (sp *SAMLServiceProvider) GetEncryptionKey() (result dsig.X509KeyStore)
//@   requires sp != nil
//@   frame [C17]
//@   assigns nothing
//@   ensures [C19] field: result == sp.SPKeyStore

//@ func (sp *SAMLServiceProvider) GetSigningKey() (result dsig.X509KeyStore)
//@   requires sp != nil
//@   frame [C17]
//@   assigns nothing
//@   ensures [C19, C13] field: result == (sp.SPSigningKeyStore != nil ? sp.SPSigningKeyStore : sp.SPKeyStore)

//@ func (sp *SAMLServiceProvider) getEncryptionCert() (cert []byte, err error)
//@   requires sp != nil
//@   frame [C17]
//@   assigns nothing
//@   ensures [C19, C11] cert: err == EncCertErr(sp) && (err == nil ==> cert == EncCertOf(sp))

//@ func (sp *SAMLServiceProvider) GetEncryptionCertBytes() (cert []byte, err error)
//@   requires sp != nil
//@   frame [C17]
//@   assigns nothing
//@   ensures [C19, C11] cert: err == nil ==> cert == EncCertOf(sp) && len(cert) >= 1
//@   ensures [C19] fails: err == nil <==> (EncCertErr(sp) == nil && len(EncCertOf(sp)) >= 1)

//@ func (sp *SAMLServiceProvider) getSigningCert() (cert []byte, err error)
//@   requires sp != nil
//@   frame [C17]
//@   assigns nothing
//@   ensures [C19, C13] cert: err == SignCertErr(sp) && (err == nil ==> cert == SignCertOf(sp))

//@ func (sp *SAMLServiceProvider) GetSigningCertBytes() (cert []byte, err error)
//@   requires sp != nil
//@   frame [C17]
//@   assigns nothing
//@   ensures [C19, C13] cert: err == nil ==> cert == SignCertOf(sp) && len(cert) >= 1
//@   ensures [C19, C13] fails: err == nil <==> (SignCertErr(sp) == nil && len(SignCertOf(sp)) >= 1)

// SigningContext: lazily built once under the write lock; the key it signs with and the certificate it embeds
// are those of the effective signing key (so what it embeds is what GetSigningCertBytes and the metadata report).
//@ func (sp *SAMLServiceProvider) SigningContext() (ctx *dsig.SigningContext)
//@   requires SPValid(sp) && sp.signingContextMu.$mu == 0 && HasSignKey(sp)
//@   frame [C17]
//@   assigns sp.signingContext, sp.signingContextMu.$mu
//@   ensures [C17] unlocked: sp.signingContextMu.$mu == 0
//@   ensures [C13, C17] cached: old(sp.signingContext) != nil ==> ctx == old(sp.signingContext) && sp.signingContext == old(sp.signingContext)
//@   ensures [C13] stored: ctx != nil && sp.signingContext == ctx
//@   ensures [C13, C19] cert: old(sp.signingContext) == nil ==> CtxCert(ctx) == SignCertOf(sp)
//@   ensures [C13] signer.setter: old(sp.signingContext) == nil && sp.spSigningKeyStoreOverride != nil ==>
//@        ctx.KeyStore == nil && ctx.signer == sp.spSigningKeyStoreOverride.Signer && len(ctx.certs) == 1
//@   ensures [C13] signer.field: old(sp.signingContext) == nil && sp.spSigningKeyStoreOverride == nil && sp.SPSigningKeyStore != nil ==>
//@        ctx.KeyStore == sp.SPSigningKeyStore && ctx.signer == nil
//@   ensures [C13] signer.encsetter: old(sp.signingContext) == nil && sp.spSigningKeyStoreOverride == nil && sp.SPSigningKeyStore == nil
//@        && sp.spKeyStoreOverride != nil ==> ctx.KeyStore == nil && ctx.signer == sp.spKeyStoreOverride.Signer && len(ctx.certs) == 1
//@   ensures [C13] signer.encfield: old(sp.signingContext) == nil && sp.spSigningKeyStoreOverride == nil && sp.SPSigningKeyStore == nil
//@        && sp.spKeyStoreOverride == nil ==> ctx.KeyStore == sp.SPKeyStore && ctx.signer == nil
//@   ensures [C13] method: old(sp.signingContext) == nil ==>
//@        ctx.Hash == ((methodKnown(sp.SignAuthnRequestsAlgorithm) && methodFits(sp.SignAuthnRequestsAlgorithm, ctx)) ? methodHash(sp.SignAuthnRequestsAlgorithm) : 5)
//@   ensures [C13] c14n: old(sp.signingContext) == nil ==>
//@        ctx.Canonicalizer == (sp.SignAuthnRequestsCanonicalizer != nil ? sp.SignAuthnRequestsCanonicalizer : defaultC14N())

// Guarded-by discipline for the lazily built signing context (C17).
//@ guarded [C17] SAMLServiceProvider.signingContext by signingContextMu
// ... and the context object itself is configured only under the write lock (it is shared once published).
//@ guarded [C17, C13] pointee dsig.SigningContext by SAMLServiceProvider.signingContextMu

//@ pure func KDCert(kd types.KeyDescriptor) string {
//@   return kd.KeyInfo.X509Data.X509Certificates[0].Data
//@ }
//@ pure func AdvertisedMethodsOK(kd types.KeyDescriptor) bool {
//@   return len(kd.EncryptionMethods) == 5
//@     && kd.EncryptionMethods[0].Algorithm == types.MethodAES128GCM && kd.EncryptionMethods[1].Algorithm == types.MethodAES192GCM
//@     && kd.EncryptionMethods[2].Algorithm == types.MethodAES256GCM && kd.EncryptionMethods[3].Algorithm == types.MethodAES128CBC
//@     && kd.EncryptionMethods[4].Algorithm == types.MethodAES256CBC
//@     && forall k int :: 0 <= k && k < len(kd.EncryptionMethods) ==>
//@          IsGCM(kd.EncryptionMethods[k].Algorithm) || IsCBC(kd.EncryptionMethods[k].Algorithm)
//@ }
//@ pure func DescriptorBasics(sp *SAMLServiceProvider, md *types.EntityDescriptor) bool {
//@   return md.EntityID == sp.ServiceProviderIssuer && md.SPSSODescriptor != nil
//@     && md.SPSSODescriptor.AuthnRequestsSigned == sp.SignAuthnRequests
//@     && md.SPSSODescriptor.WantAssertionsSigned == !sp.SkipSignatureValidation
//@     && md.SPSSODescriptor.ProtocolSupportEnumeration == SAMLProtocolNamespace
//@     && len(md.SPSSODescriptor.AssertionConsumerServices) == 1
//@     && md.SPSSODescriptor.AssertionConsumerServices[0].Binding == BindingHttpPost
//@     && md.SPSSODescriptor.AssertionConsumerServices[0].Location == sp.AssertionConsumerServiceURL
//@     && md.SPSSODescriptor.AssertionConsumerServices[0].Index == 1
//@ }

//@ func (sp *SAMLServiceProvider) Metadata() (md *types.EntityDescriptor, err error)
//@   requires SPValid(sp)
//@   frame [C17]
//@   assigns nothing
//@   fresh [C17] md when err == nil
//@   ensures [C19] xor: (md != nil) != (err != nil)
//@   ensures [C19] basics: err == nil ==> DescriptorBasics(sp, md)
//@   ensures [C19] validity: err == nil ==> instant(md.ValidUntil) == now(sp.Clock) + 604800000000000 && isUTC(md.ValidUntil)
//@   ensures [C19, C13] signing: err == nil && HasSignKey(sp) ==> len(md.SPSSODescriptor.KeyDescriptors) == 2
//@        && md.SPSSODescriptor.KeyDescriptors[0].Use == "signing"
//@        && KDCert(md.SPSSODescriptor.KeyDescriptors[0]) == b64enc(SignCertOf(sp))
//@   ensures [C19, C11] encryption: err == nil ==> len(md.SPSSODescriptor.KeyDescriptors) >= 1
//@        && md.SPSSODescriptor.KeyDescriptors[len(md.SPSSODescriptor.KeyDescriptors)-1].Use == "encryption"
//@        && KDCert(md.SPSSODescriptor.KeyDescriptors[len(md.SPSSODescriptor.KeyDescriptors)-1]) == b64enc(EncCertOf(sp))
//@        && AdvertisedMethodsOK(md.SPSSODescriptor.KeyDescriptors[len(md.SPSSODescriptor.KeyDescriptors)-1])
//@   ensures [C19] nokeys: err == nil ==> HasSignKey(sp)

//@ func (sp *SAMLServiceProvider) MetadataWithSLO(validityHours int64) (md *types.EntityDescriptor, err error)
//@   requires SPValid(sp) && validityHours <= 2562047
//@   frame [C17]
//@   assigns nothing
//@   fresh [C17] md when err == nil
//@   ensures [C19] xor: (md != nil) != (err != nil)
//@   ensures [C19] basics: err == nil ==> DescriptorBasics(sp, md)
//@   ensures [C19] validity: err == nil ==> isUTC(md.ValidUntil)
//@        && instant(md.ValidUntil) == now(sp.Clock) + (validityHours <= 0 ? 168 : validityHours) * 3600000000000
//@   ensures [C19, C13] signing: err == nil ==> len(md.SPSSODescriptor.KeyDescriptors) == 2
//@        && md.SPSSODescriptor.KeyDescriptors[0].Use == "signing"
//@        && KDCert(md.SPSSODescriptor.KeyDescriptors[0]) == b64enc(SignCertOf(sp))
//@   ensures [C19, C11] encryption: err == nil ==> md.SPSSODescriptor.KeyDescriptors[1].Use == "encryption"
//@        && KDCert(md.SPSSODescriptor.KeyDescriptors[1]) == b64enc(EncCertOf(sp))
//@        && AdvertisedMethodsOK(md.SPSSODescriptor.KeyDescriptors[1])
//@   ensures [C19] slo: err == nil ==> len(md.SPSSODescriptor.SingleLogoutServices) == 1
//@        && md.SPSSODescriptor.SingleLogoutServices[0].Binding == BindingHttpPost
//@        && md.SPSSODescriptor.SingleLogoutServices[0].Location == sp.ServiceProviderSLOURL

// ---------------------------------------------------------------------------
// Outgoing messages (C13 placement, C15 content and order, C18 identifiers)
// ---------------------------------------------------------------------------

//@ pure func HasAttr(e *etree.Element, name string, value string) bool {
//@   return exists i int :: 0 <= i && i < len(e.Attr) && e.Attr[i].$name == name && e.Attr[i].Value == value
//@ }
//@ pure func NoAttr(e *etree.Element, name string) bool {
//@   return forall i int :: 0 <= i && i < len(e.Attr) ==> e.Attr[i].$name != name
//@ }
//@ pure func ChildEl(e *etree.Element, i int) *etree.Element {
//@   return e.Child[i].(*etree.Element)
//@ }
//@ pure func IsEl(e *etree.Element, i int, qname string) bool {
//@   return e.Child[i] is *etree.Element && ChildEl(e, i) != nil && ChildEl(e, i).$qname == qname
//@ }
//@ pure func IssuerText(sp *SAMLServiceProvider) string {
//@   return sp.ServiceProviderIssuer != "" ? sp.ServiceProviderIssuer : sp.IdentityProviderIssuer
//@ }
//@ pure func ProtocolRoot(e *etree.Element, tag string) bool {
//@   return e.Space == "samlp" && e.Tag == tag
//@       && HasAttr(e, "xmlns:samlp", "urn:oasis:names:tc:SAML:2.0:protocol") && HasAttr(e, "xmlns:saml", "urn:oasis:names:tc:SAML:2.0:assertion")
//@       && HasAttr(e, "Version", "2.0")
//@ }
//@ pure func IssueInstantOK(sp *SAMLServiceProvider, e *etree.Element) bool {
//@   return exists t time.Time :: isUTC(t) && instant(t) == now(sp.Clock) && HasAttr(e, "IssueInstant", formatted(t, issueInstantFormat))
//@ }
// Signature placement: the signed copy has the Issuer copy first, then the signature over the original, then the rest.
//@ pure func SignedCopy(sp *SAMLServiceProvider, el *etree.Element, ret *etree.Element, ctx *dsig.SigningContext) bool {
//@   return ret != nil && len(ret.Child) == len(el.Child) + 1
//@       && ret.Child[0] == copyTok(el.Child[0])
//@       && ret.Child[1] is *etree.Element && ChildEl(ret, 1) != nil && signedOver(ChildEl(ret, 1)) == el && signedWith(ChildEl(ret, 1)) == ctx
//@       && (forall i int :: 1 <= i && i < len(el.Child) ==> ret.Child[i + 1] == copyTok(el.Child[i]))
//@       && ret.Space == el.Space && ret.Tag == el.Tag && ret.Attr == el.Attr
//@ }
//@ pure func SigningReady(sp *SAMLServiceProvider) bool {
//@   return SPValid(sp) && sp.signingContextMu.$mu == 0 && HasSignKey(sp)
//@ }

//@ func (sp *SAMLServiceProvider) SignAuthnRequest(el *etree.Element) (ret *etree.Element, err error)
//@   requires SigningReady(sp) && el != nil && len(el.Child) >= 1
//@   assigns sp.signingContext, sp.signingContextMu.$mu
//@   fresh ret when err == nil
//@   ensures [C13, C15] placement: err == nil ==> SignedCopy(sp, el, ret, sp.signingContext)
//@   ensures [C13] detached: err == nil ==> ret.parent == nil
//@   ensures [C13] fail: err != nil ==> ret == nil
//@   ensures [C17] unlocked: sp.signingContextMu.$mu == 0

//@ func (sp *SAMLServiceProvider) SignLogoutRequest(el *etree.Element) (ret *etree.Element, err error)
//@   requires SigningReady(sp) && el != nil && len(el.Child) >= 1
//@   assigns sp.signingContext, sp.signingContextMu.$mu
//@   fresh ret when err == nil
//@   ensures [C13, C15] placement: err == nil ==> SignedCopy(sp, el, ret, sp.signingContext)
//@   ensures [C13] detached: err == nil ==> ret.parent == nil
//@   ensures [C13] fail: err != nil ==> ret == nil
//@   ensures [C17] unlocked: sp.signingContextMu.$mu == 0

//@ func (sp *SAMLServiceProvider) SignLogoutResponse(el *etree.Element) (ret *etree.Element, err error)
//@   requires SigningReady(sp) && el != nil && len(el.Child) >= 1
//@   assigns sp.signingContext, sp.signingContextMu.$mu
//@   fresh ret when err == nil
//@   ensures [C13, C15] placement: err == nil ==> SignedCopy(sp, el, ret, sp.signingContext)
//@   ensures [C13] detached: err == nil ==> ret.parent == nil
//@   ensures [C13] fail: err != nil ==> ret == nil
//@   ensures [C17] unlocked: sp.signingContextMu.$mu == 0

//@ func (sp *SAMLServiceProvider) buildAuthnRequest(includeSig bool) (doc *etree.Document, err error)
//@   requires SPValid(sp) && sp.signingContextMu.$mu == 0 && ((sp.SignAuthnRequests && includeSig) ==> HasSignKey(sp))
//@   assigns sp.signingContext, sp.signingContextMu.$mu
//@   ensures [C13, C14, C17] unlocked: sp.signingContextMu.$mu == 0
//@   fresh doc when err == nil
//@   ensures [C15] xor: (doc != nil) != (err != nil)
//@   exit [C15] root: ProtocolRoot(authnRequest, "AuthnRequest")
//@   exit [C15, C18] id: HasAttr(authnRequest, "ID", "_" + uuidStr(*arId)) && fresh(arId)
//@   exit [C15] instant: IssueInstantOK(sp, authnRequest)
//@   exit [C15] addressing: HasAttr(authnRequest, "Destination", sp.IdentityProviderSSOURL)
//@        && HasAttr(authnRequest, "AssertionConsumerServiceURL", sp.AssertionConsumerServiceURL)
//@        && HasAttr(authnRequest, "ProtocolBinding", "urn:oasis:names:tc:SAML:2.0:bindings:HTTP-POST")
//@   exit [C15] force: (sp.ForceAuthn ==> HasAttr(authnRequest, "ForceAuthn", "true")) && (!sp.ForceAuthn ==> NoAttr(authnRequest, "ForceAuthn"))
//@   exit [C15] passive: (sp.IsPassive ==> HasAttr(authnRequest, "IsPassive", "true")) && (!sp.IsPassive ==> NoAttr(authnRequest, "IsPassive"))
//@   exit [C15] nattr: len(authnRequest.Attr) == 8 + (sp.ForceAuthn ? 1 : 0) + (sp.IsPassive ? 1 : 0)
//@   exit [C15] order: len(authnRequest.Child) == 2 + (sp.RequestedAuthnContext != nil ? 1 : 0)
//@        && IsEl(authnRequest, 0, "saml:Issuer") && IsEl(authnRequest, 1, "samlp:NameIDPolicy")
//@   exit [C15] issuer: ChildEl(authnRequest, 0).$text == IssuerText(sp)
//@   exit [C15] policy: HasAttr(ChildEl(authnRequest, 1), "AllowCreate", "true")
//@        && (sp.NameIdFormat != "" ==> HasAttr(ChildEl(authnRequest, 1), "Format", sp.NameIdFormat) && len(ChildEl(authnRequest, 1).Attr) == 2)
//@        && (sp.NameIdFormat == "" ==> len(ChildEl(authnRequest, 1).Attr) == 1)
//@   exit [C15] context: sp.RequestedAuthnContext != nil ==> IsEl(authnRequest, 2, "samlp:RequestedAuthnContext")
//@        && HasAttr(ChildEl(authnRequest, 2), "Comparison", sp.RequestedAuthnContext.Comparison)
//@        && len(ChildEl(authnRequest, 2).Child) == len(sp.RequestedAuthnContext.Contexts)
//@        && forall j int :: 0 <= j && j < len(sp.RequestedAuthnContext.Contexts) ==>
//@             IsEl(ChildEl(authnRequest, 2), j, "saml:AuthnContextClassRef")
//@             && ChildEl(ChildEl(authnRequest, 2), j).$text == sp.RequestedAuthnContext.Contexts[j]
//@   exit [C15, C13] unsigned: err == nil && !(sp.SignAuthnRequests && includeSig) ==> doc.$root == authnRequest
//@   exit [C15, C13] signed: err == nil && sp.SignAuthnRequests && includeSig ==> doc.$root == signed && SignedCopy(sp, authnRequest, signed, sp.signingContext)
//@   loop 0
//@     invariant [C15] count: len(requestedAuthnContext.Child) == $i
//@     invariant [C15] refs: forall j int :: 0 <= j && j < $i ==>
//@          IsEl(requestedAuthnContext, j, "saml:AuthnContextClassRef") && ChildEl(requestedAuthnContext, j).$text == sp.RequestedAuthnContext.Contexts[j]
//@          && allocated(ChildEl(requestedAuthnContext, j))
//@     invariant [C15] cmp: HasAttr(requestedAuthnContext, "Comparison", sp.RequestedAuthnContext.Comparison)

//@ func (sp *SAMLServiceProvider) buildLogoutRequest(includeSig bool, nameID string, sessionIndex string) (doc *etree.Document, err error)
//@   requires SPValid(sp) && sp.signingContextMu.$mu == 0 && (includeSig ==> HasSignKey(sp))
//@   assigns sp.signingContext, sp.signingContextMu.$mu
//@   ensures [C13, C14, C17] unlocked: sp.signingContextMu.$mu == 0
//@   fresh doc when err == nil
//@   ensures [C15] xor: (doc != nil) != (err != nil)
//@   exit [C15] root: ProtocolRoot(logoutRequest, "LogoutRequest")
//@   exit [C15, C18] id: HasAttr(logoutRequest, "ID", "_" + uuidStr(*arId)) && fresh(arId)
//@   exit [C15] instant: IssueInstantOK(sp, logoutRequest)
//@   exit [C15] addressing: HasAttr(logoutRequest, "Destination", sp.IdentityProviderSLOURL)
//@   exit [C15] nattr: len(logoutRequest.Attr) == 6
//@   exit [C15] order: len(logoutRequest.Child) == 3 && IsEl(logoutRequest, 0, "saml:Issuer")
//@        && IsEl(logoutRequest, 1, "saml:NameID") && IsEl(logoutRequest, 2, "samlp:SessionIndex")
//@   exit [C15] issuer: ChildEl(logoutRequest, 0).$text == IssuerText(sp)
//@   exit [C15] nameid: ChildEl(logoutRequest, 1).$text == nameID && HasAttr(ChildEl(logoutRequest, 1), "Format", sp.NameIdFormat)
//@        && len(ChildEl(logoutRequest, 1).Attr) == 1
//@   exit [C15] session: ChildEl(logoutRequest, 2).$text == sessionIndex && len(ChildEl(logoutRequest, 2).Attr) == 0
//@   exit [C15, C13] unsigned: err == nil && !includeSig ==> doc.$root == logoutRequest
//@   exit [C15, C13] signed: err == nil && includeSig ==> doc.$root == signed && SignedCopy(sp, logoutRequest, signed, sp.signingContext)

//@ func (sp *SAMLServiceProvider) buildLogoutResponse(statusCodeValue string, reqID string, includeSig bool) (doc *etree.Document, err error)
//@   requires SPValid(sp) && sp.signingContextMu.$mu == 0 && (includeSig ==> HasSignKey(sp))
//@   assigns sp.signingContext, sp.signingContextMu.$mu
//@   ensures [C13, C14, C17] unlocked: sp.signingContextMu.$mu == 0
//@   fresh doc when err == nil
//@   ensures [C15] xor: (doc != nil) != (err != nil)
//@   exit [C15] root: ProtocolRoot(logoutResponse, "LogoutResponse")
//@   exit [C15, C18] id: HasAttr(logoutResponse, "ID", "_" + uuidStr(*arId)) && fresh(arId)
//@   exit [C15] instant: IssueInstantOK(sp, logoutResponse)
//@   exit [C15] addressing: HasAttr(logoutResponse, "Destination", sp.IdentityProviderSLOURL) && HasAttr(logoutResponse, "InResponseTo", reqID)
//@   exit [C15] nattr: len(logoutResponse.Attr) == 7
//@   exit [C15] order: len(logoutResponse.Child) == 2 && IsEl(logoutResponse, 0, "saml:Issuer") && IsEl(logoutResponse, 1, "samlp:Status")
//@   exit [C15] issuer: ChildEl(logoutResponse, 0).$text == IssuerText(sp)
//@   exit [C15] status: len(ChildEl(logoutResponse, 1).Child) == 1 && IsEl(ChildEl(logoutResponse, 1), 0, "samlp:StatusCode")
//@        && HasAttr(ChildEl(ChildEl(logoutResponse, 1), 0), "Value", statusCodeValue)
//@        && len(ChildEl(ChildEl(logoutResponse, 1), 0).Attr) == 1
//@   exit [C15, C13] unsigned: err == nil && !includeSig ==> doc.$root == logoutResponse
//@   exit [C15, C13] signed: err == nil && includeSig ==> doc.$root == signed && SignedCopy(sp, logoutResponse, signed, sp.signingContext)

// ---------------------------------------------------------------------------
// Exported wrappers (C13 C14 C15 C16): pure wiring. Each obtains its document from the builder named in the property
// with the signing choice the property states, hands exactly that document to the serialiser or binding builder and
// touches nothing in between (frame: an uncontracted call on the document, e.g. re-indenting a signed document, is a
// violation), and returns that callee's results unchanged.
// ---------------------------------------------------------------------------

//@ func (sp *SAMLServiceProvider) BuildAuthRequestDocument() (doc *etree.Document, err error)
//@   requires SPValid(sp) && sp.signingContextMu.$mu == 0 && (sp.SignAuthnRequests ==> HasSignKey(sp))
//@   frame [C13, C15]
//@   assigns sp.signingContext, sp.signingContextMu.$mu
//@   ensures [C13, C14, C17] unlocked: sp.signingContextMu.$mu == 0
//@   fresh doc when err == nil
//@   exit [C13, C15] wiring: lastarg(SAMLServiceProvider.buildAuthnRequest, 1) == true
//@        && doc == lastres(SAMLServiceProvider.buildAuthnRequest, 0) && err == lasterr(SAMLServiceProvider.buildAuthnRequest)

//@ func (sp *SAMLServiceProvider) BuildAuthRequestDocumentNoSig() (doc *etree.Document, err error)
//@   requires SPValid(sp) && sp.signingContextMu.$mu == 0
//@   frame [C13, C15]
//@   assigns sp.signingContext, sp.signingContextMu.$mu
//@   ensures [C13, C14, C17] unlocked: sp.signingContextMu.$mu == 0
//@   fresh doc when err == nil
//@   exit [C13, C15] wiring: lastarg(SAMLServiceProvider.buildAuthnRequest, 1) == false
//@        && doc == lastres(SAMLServiceProvider.buildAuthnRequest, 0) && err == lasterr(SAMLServiceProvider.buildAuthnRequest)

//@ func (sp *SAMLServiceProvider) BuildAuthRequest() (result string, err error)
//@   requires SPValid(sp) && sp.signingContextMu.$mu == 0 && (sp.SignAuthnRequests ==> HasSignKey(sp))
//@   frame [C13, C15]
//@   assigns sp.signingContext, sp.signingContextMu.$mu
//@   exit [C13, C15] built: lasterr(SAMLServiceProvider.BuildAuthRequestDocument) != nil ==> err == lasterr(SAMLServiceProvider.BuildAuthRequestDocument)
//@   exit [C13, C15] serialised: called(Document.WriteToString) ==> lastarg(Document.WriteToString, 0) == lastres(SAMLServiceProvider.BuildAuthRequestDocument, 0)
//@        && result == lastres(Document.WriteToString, 0) && err == lasterr(Document.WriteToString)
//@   exit [C13, C15] complete: err == nil ==> called(Document.WriteToString)

//@ func (sp *SAMLServiceProvider) BuildAuthBodyPost(relayState string) (out []byte, err error)
//@   nomerge
//@   requires SPValid(sp) && sp.signingContextMu.$mu == 0 && (sp.SignAuthnRequests ==> HasSignKey(sp))
//@   frame [C13, C16]
//@   assigns sp.signingContext, sp.signingContextMu.$mu
//@   exit [C13, C16] signed.called: err == nil && sp.SignAuthnRequests ==>
//@        called(SAMLServiceProvider.BuildAuthRequestDocument) && !called(SAMLServiceProvider.BuildAuthRequestDocumentNoSig)
//@   exit [C13, C16] signed.doc: err == nil && sp.SignAuthnRequests ==>
//@        lastarg(SAMLServiceProvider.buildAuthBodyPostFromDocument, 2) == lastres(SAMLServiceProvider.BuildAuthRequestDocument, 0)
//@   exit [C13, C16] unsigned.called: err == nil && !sp.SignAuthnRequests ==>
//@        called(SAMLServiceProvider.BuildAuthRequestDocumentNoSig) && !called(SAMLServiceProvider.BuildAuthRequestDocument)
//@   exit [C13, C16] unsigned.doc: err == nil && !sp.SignAuthnRequests ==>
//@        lastarg(SAMLServiceProvider.buildAuthBodyPostFromDocument, 2) == lastres(SAMLServiceProvider.BuildAuthRequestDocumentNoSig, 0)
//@   exit [C16] relay: err == nil ==> lastarg(SAMLServiceProvider.buildAuthBodyPostFromDocument, 1) == relayState
//@        && out == lastres(SAMLServiceProvider.buildAuthBodyPostFromDocument, 0)

//@ func (sp *SAMLServiceProvider) BuildAuthBodyPostFromDocument(relayState string, doc *etree.Document) (out []byte, err error)
//@   requires sp != nil && doc != nil
//@   frame [C16, C17]
//@   assigns nothing
//@   exit [C16] wiring: lastarg(SAMLServiceProvider.buildAuthBodyPostFromDocument, 1) == relayState && lastarg(SAMLServiceProvider.buildAuthBodyPostFromDocument, 2) == doc
//@        && out == lastres(SAMLServiceProvider.buildAuthBodyPostFromDocument, 0) && err == lasterr(SAMLServiceProvider.buildAuthBodyPostFromDocument)

//@ func (sp *SAMLServiceProvider) BuildLogoutBodyPostFromDocument(relayState string, doc *etree.Document) (out []byte, err error)
//@   requires sp != nil && doc != nil
//@   frame [C16, C17]
//@   assigns nothing
//@   exit [C16] wiring: lastarg(SAMLServiceProvider.buildLogoutBodyPostFromDocument, 1) == relayState && lastarg(SAMLServiceProvider.buildLogoutBodyPostFromDocument, 2) == doc
//@        && out == lastres(SAMLServiceProvider.buildLogoutBodyPostFromDocument, 0) && err == lasterr(SAMLServiceProvider.buildLogoutBodyPostFromDocument)

//@ func (sp *SAMLServiceProvider) BuildLogoutResponseBodyPostFromDocument(relayState string, doc *etree.Document) (out []byte, err error)
//@   requires sp != nil && doc != nil
//@   frame [C16, C17]
//@   assigns nothing
//@   exit [C16] wiring: lastarg(SAMLServiceProvider.buildLogoutResponseBodyPostFromDocument, 1) == relayState && lastarg(SAMLServiceProvider.buildLogoutResponseBodyPostFromDocument, 2) == doc
//@        && out == lastres(SAMLServiceProvider.buildLogoutResponseBodyPostFromDocument, 0) && err == lasterr(SAMLServiceProvider.buildLogoutResponseBodyPostFromDocument)

//@ func (sp *SAMLServiceProvider) BuildAuthURLFromDocument(relayState string, doc *etree.Document) (result string, err error)
//@   requires SPValid(sp) && doc != nil && sp.signingContextMu.$mu == 0 && NoReservedParams(sp.IdentityProviderSSOURL)
//@   frame [C14, C17]
//@   assigns sp.signingContext, sp.signingContextMu.$mu
//@   exit [C14] wiring: lastarg(SAMLServiceProvider.buildAuthURLFromDocument, 1) == relayState && lastarg(SAMLServiceProvider.buildAuthURLFromDocument, 2) == BindingHttpPost
//@        && lastarg(SAMLServiceProvider.buildAuthURLFromDocument, 3) == doc
//@        && result == lastres(SAMLServiceProvider.buildAuthURLFromDocument, 0) && err == lasterr(SAMLServiceProvider.buildAuthURLFromDocument)

//@ func (sp *SAMLServiceProvider) BuildAuthURLRedirect(relayState string, doc *etree.Document) (result string, err error)
//@   requires SPValid(sp) && doc != nil && sp.signingContextMu.$mu == 0 && NoReservedParams(sp.IdentityProviderSSOURL)
//@   requires sp.SignAuthnRequests ==> HasSignKey(sp)
//@   frame [C14, C17]
//@   assigns sp.signingContext, sp.signingContextMu.$mu
//@   exit [C14] wiring: lastarg(SAMLServiceProvider.buildAuthURLFromDocument, 1) == relayState && lastarg(SAMLServiceProvider.buildAuthURLFromDocument, 2) == BindingHttpRedirect
//@        && lastarg(SAMLServiceProvider.buildAuthURLFromDocument, 3) == doc
//@        && result == lastres(SAMLServiceProvider.buildAuthURLFromDocument, 0) && err == lasterr(SAMLServiceProvider.buildAuthURLFromDocument)

//@ func (sp *SAMLServiceProvider) BuildLogoutURLRedirect(relayState string, doc *etree.Document) (result string, err error)
//@   requires SPValid(sp) && doc != nil && sp.signingContextMu.$mu == 0 && NoReservedParams(sp.IdentityProviderSLOURL) && HasSignKey(sp)
//@   frame [C14, C17]
//@   assigns sp.signingContext, sp.signingContextMu.$mu
//@   exit [C14] wiring: lastarg(SAMLServiceProvider.buildLogoutURLFromDocument, 1) == relayState && lastarg(SAMLServiceProvider.buildLogoutURLFromDocument, 2) == BindingHttpRedirect
//@        && lastarg(SAMLServiceProvider.buildLogoutURLFromDocument, 3) == doc
//@        && result == lastres(SAMLServiceProvider.buildLogoutURLFromDocument, 0) && err == lasterr(SAMLServiceProvider.buildLogoutURLFromDocument)

//@ func (sp *SAMLServiceProvider) BuildAuthURL(relayState string) (result string, err error)
//@   requires SPValid(sp) && sp.signingContextMu.$mu == 0 && NoReservedParams(sp.IdentityProviderSSOURL) && (sp.SignAuthnRequests ==> HasSignKey(sp))
//@   frame [C14, C13]
//@   assigns sp.signingContext, sp.signingContextMu.$mu
//@   exit [C14, C13] built: lasterr(SAMLServiceProvider.BuildAuthRequestDocument) != nil ==> err == lasterr(SAMLServiceProvider.BuildAuthRequestDocument)
//@   exit [C14, C13] complete: err == nil ==> called(SAMLServiceProvider.BuildAuthURLFromDocument)
//@   exit [C14, C13] wiring: called(SAMLServiceProvider.BuildAuthURLFromDocument) ==>
//@        lastarg(SAMLServiceProvider.BuildAuthURLFromDocument, 1) == relayState
//@        && lastarg(SAMLServiceProvider.BuildAuthURLFromDocument, 2) == lastres(SAMLServiceProvider.BuildAuthRequestDocument, 0)
//@        && result == lastres(SAMLServiceProvider.BuildAuthURLFromDocument, 0) && err == lasterr(SAMLServiceProvider.BuildAuthURLFromDocument)

// AuthRedirect (C14): the browser is sent, with 302 Found, to exactly the URL BuildAuthURL produced for this relay state;
// nothing is sent when building fails.
//@ func (sp *SAMLServiceProvider) AuthRedirect(w http.ResponseWriter, r *http.Request, relayState string) (err error)
//@   requires SPValid(sp) && sp.signingContextMu.$mu == 0 && NoReservedParams(sp.IdentityProviderSSOURL) && (sp.SignAuthnRequests ==> HasSignKey(sp))
//@   exit [C14] wiring: lastarg(SAMLServiceProvider.BuildAuthURL, 0) == sp && lastarg(SAMLServiceProvider.BuildAuthURL, 1) == relayState
//@   exit [C14] failed: lasterr(SAMLServiceProvider.BuildAuthURL) != nil ==> err == lasterr(SAMLServiceProvider.BuildAuthURL)
//@   exit [C14] target: err == nil ==> redirectTarget(w) == lastres(SAMLServiceProvider.BuildAuthURL, 0) && redirectCode(w) == 302

//@ func (sp *SAMLServiceProvider) BuildLogoutRequestDocument(nameID string, sessionIndex string) (doc *etree.Document, err error)
//@   requires SPValid(sp) && sp.signingContextMu.$mu == 0 && HasSignKey(sp)
//@   frame [C13, C15]
//@   assigns sp.signingContext, sp.signingContextMu.$mu
//@   fresh doc when err == nil
//@   exit [C13, C15] wiring: lastarg(SAMLServiceProvider.buildLogoutRequest, 1) == true && lastarg(SAMLServiceProvider.buildLogoutRequest, 2) == nameID
//@        && lastarg(SAMLServiceProvider.buildLogoutRequest, 3) == sessionIndex
//@        && doc == lastres(SAMLServiceProvider.buildLogoutRequest, 0) && err == lasterr(SAMLServiceProvider.buildLogoutRequest)

//@ func (sp *SAMLServiceProvider) BuildLogoutRequestDocumentNoSig(nameID string, sessionIndex string) (doc *etree.Document, err error)
//@   requires SPValid(sp) && sp.signingContextMu.$mu == 0
//@   frame [C13, C15]
//@   assigns sp.signingContext, sp.signingContextMu.$mu
//@   fresh doc when err == nil
//@   exit [C13, C15] wiring: lastarg(SAMLServiceProvider.buildLogoutRequest, 1) == false && lastarg(SAMLServiceProvider.buildLogoutRequest, 2) == nameID
//@        && lastarg(SAMLServiceProvider.buildLogoutRequest, 3) == sessionIndex
//@        && doc == lastres(SAMLServiceProvider.buildLogoutRequest, 0) && err == lasterr(SAMLServiceProvider.buildLogoutRequest)

//@ func (sp *SAMLServiceProvider) BuildLogoutResponseDocument(status string, reqID string) (doc *etree.Document, err error)
//@   requires SPValid(sp) && sp.signingContextMu.$mu == 0 && HasSignKey(sp)
//@   frame [C13, C15]
//@   assigns sp.signingContext, sp.signingContextMu.$mu
//@   fresh doc when err == nil
//@   exit [C13, C15] wiring: lastarg(SAMLServiceProvider.buildLogoutResponse, 1) == status && lastarg(SAMLServiceProvider.buildLogoutResponse, 2) == reqID
//@        && lastarg(SAMLServiceProvider.buildLogoutResponse, 3) == true
//@        && doc == lastres(SAMLServiceProvider.buildLogoutResponse, 0) && err == lasterr(SAMLServiceProvider.buildLogoutResponse)

//@ func (sp *SAMLServiceProvider) BuildLogoutResponseDocumentNoSig(status string, reqID string) (doc *etree.Document, err error)
//@   requires SPValid(sp) && sp.signingContextMu.$mu == 0
//@   frame [C13, C15]
//@   assigns sp.signingContext, sp.signingContextMu.$mu
//@   fresh doc when err == nil
//@   exit [C13, C15] wiring: lastarg(SAMLServiceProvider.buildLogoutResponse, 1) == status && lastarg(SAMLServiceProvider.buildLogoutResponse, 2) == reqID
//@        && lastarg(SAMLServiceProvider.buildLogoutResponse, 3) == false
//@        && doc == lastres(SAMLServiceProvider.buildLogoutResponse, 0) && err == lasterr(SAMLServiceProvider.buildLogoutResponse)

// ---------------------------------------------------------------------------
// HTTP-POST binding forms (C16)
// ---------------------------------------------------------------------------

//@ func (sp *SAMLServiceProvider) buildAuthBodyPostFromDocument(relayState string, doc *etree.Document) (out []byte, err error)
//@   requires sp != nil && doc != nil
//@   frame [C17, C16]
//@   assigns nothing
//@   exit [C16] template: err == nil ==> tmplWellFormed(tmpl.$text, "SAMLRequest") && (tmplHasRelay(tmpl.$text) <==> relayState != "")
//@   exit [C16] endpoint: err == nil ==> data.URL == sp.IdentityProviderSSOURL
//@   exit [C16] payload: err == nil ==> data.SAMLRequest == b64enc(reqBuf)
//@   exit [C16] message: err == nil ==> serOf(reqBuf) == old(doc.$root)
//@   exit [C16] relay: err == nil ==> data.RelayState == relayState
//@   exit [C16] output: err == nil ==> out == rendered(tmpl.$text, data)

//@ func (sp *SAMLServiceProvider) buildLogoutBodyPostFromDocument(relayState string, doc *etree.Document) (out []byte, err error)
//@   requires sp != nil && doc != nil
//@   frame [C17, C16]
//@   assigns nothing
//@   exit [C16] template: err == nil ==> tmplWellFormed(tmpl.$text, "SAMLRequest") && (tmplHasRelay(tmpl.$text) <==> relayState != "")
//@   exit [C16] endpoint: err == nil ==> data.URL == sp.IdentityProviderSLOURL
//@   exit [C16] payload: err == nil ==> data.SAMLRequest == b64enc(reqBuf)
//@   exit [C16] message: err == nil ==> serOf(reqBuf) == old(doc.$root)
//@   exit [C16] relay: err == nil ==> data.RelayState == relayState
//@   exit [C16] output: err == nil ==> out == rendered(tmpl.$text, data)

//@ func (sp *SAMLServiceProvider) buildLogoutResponseBodyPostFromDocument(relayState string, doc *etree.Document) (out []byte, err error)
//@   requires sp != nil && doc != nil
//@   frame [C17, C16]
//@   assigns nothing
//@   exit [C16] template: err == nil ==> tmplWellFormed(tmpl.$text, "SAMLResponse") && (tmplHasRelay(tmpl.$text) <==> relayState != "")
//@   exit [C16] endpoint: err == nil ==> data.URL == sp.IdentityProviderSLOURL
//@   exit [C16] payload: err == nil ==> data.SAMLResponse == b64enc(respBuf)
//@   exit [C16] message: err == nil ==> serOf(respBuf) == old(doc.$root)
//@   exit [C16] relay: err == nil ==> data.RelayState == relayState
//@   exit [C16] output: err == nil ==> out == rendered(tmpl.$text, data)

// ---------------------------------------------------------------------------
// HTTP-Redirect binding (C14)
// ---------------------------------------------------------------------------

// The octet string that is signed: SAMLRequest=v1[&RelayState=v2]&SigAlg=v3 with the same escaping function
// (url.QueryEscape) that Values.Encode applies when the URL is rendered.
//@ pure func SignedOctets(samlRequest string, relayState string, sigAlg string) string {
//@   return relayState == "" ? esc("SAMLRequest") + "=" + esc(samlRequest) + "&" + esc("SigAlg") + "=" + esc(sigAlg)
//@        : esc("SAMLRequest") + "=" + esc(samlRequest) + "&" + esc("RelayState") + "=" + esc(relayState) + "&" + esc("SigAlg") + "=" + esc(sigAlg)
//@ }
// (esc is the identity on the three parameter names: axiom url.esc.names)
//@ func signatureInputString(samlRequest string, relayState string, sigAlg string) (result string)
//@   nomerge
//@   frame [C17]
//@   assigns nothing
//@   ensures [C14] octets: result == SignedOctets(samlRequest, relayState, sigAlg)

// Configuration invariant of the redirect flows: the IdP endpoint does not itself carry the reserved parameters.
//@ pure func NoReservedParams(raw string) bool {
//@   return !hasKey(queryKeys(urlParsed(raw).RawQuery), "SAMLRequest") && !hasKey(queryKeys(urlParsed(raw).RawQuery), "RelayState")
//@       && !hasKey(queryKeys(urlParsed(raw).RawQuery), "SigAlg") && !hasKey(queryKeys(urlParsed(raw).RawQuery), "Signature")
//@ }
//@ pure func SameURLButQuery(u *url.URL, raw string) bool {
//@   return u.Scheme == urlParsed(raw).Scheme && u.Opaque == urlParsed(raw).Opaque && u.User == urlParsed(raw).User && u.Host == urlParsed(raw).Host
//@       && u.Path == urlParsed(raw).Path && u.RawPath == urlParsed(raw).RawPath && u.Fragment == urlParsed(raw).Fragment && u.RawFragment == urlParsed(raw).RawFragment
//@ }

//@ func (sp *SAMLServiceProvider) buildAuthURLFromDocument(relayState string, binding string, doc *etree.Document) (result string, err error)
//@   requires SPValid(sp) && doc != nil && sp.signingContextMu.$mu == 0 && NoReservedParams(sp.IdentityProviderSSOURL)
//@   requires (sp.SignAuthnRequests && binding == BindingHttpRedirect) ==> HasSignKey(sp)
//@   frame [C17]
//@   assigns sp.signingContext, sp.signingContextMu.$mu
//@   exit [C14] endpoint: err == nil ==> SameURLButQuery(parsedUrl, sp.IdentityProviderSSOURL) && result == urlString(*parsedUrl)
//@   exit [C14] query: err == nil ==> parsedUrl.RawQuery == encodeQuery(qs.$keys, qs.$vals)
//@   exit [C14] request: err == nil ==> xmlOfRoot(authnRequest) == doc.$root
//@        && firstFor(qs.$keys, qs.$vals, "SAMLRequest") == b64enc(deflateOf(bytes(authnRequest)))
//@   exit [C14] relay: err == nil ==> (relayState != "" ==> firstFor(qs.$keys, qs.$vals, "RelayState") == relayState)
//@        && (relayState == "" ==> !hasKey(qs.$keys, "RelayState"))
//@   exit [C14] unsigned: err == nil && !(sp.SignAuthnRequests && binding == BindingHttpRedirect) ==>
//@        !hasKey(qs.$keys, "SigAlg") && !hasKey(qs.$keys, "Signature")
//@   exit [C14] kept: err == nil ==> (relayState == "" && !(sp.SignAuthnRequests && binding == BindingHttpRedirect)) ==>
//@        qs.$keys == push(queryKeys(urlParsed(sp.IdentityProviderSSOURL).RawQuery), "SAMLRequest")
//@   exit [C14] signed: err == nil && sp.SignAuthnRequests && binding == BindingHttpRedirect ==>
//@        firstFor(qs.$keys, qs.$vals, "SigAlg") == sigAlgOf(ctx)
//@        && firstFor(qs.$keys, qs.$vals, "Signature") == b64enc(sigBytes(ctx, SignedOctets(firstFor(qs.$keys, qs.$vals, "SAMLRequest"), relayState, sigAlgOf(ctx))))
//@        && ctx == sp.signingContext

//@ func (sp *SAMLServiceProvider) buildLogoutURLFromDocument(relayState string, binding string, doc *etree.Document) (result string, err error)
//@   requires SPValid(sp) && doc != nil && sp.signingContextMu.$mu == 0 && NoReservedParams(sp.IdentityProviderSLOURL)
//@   requires binding == BindingHttpRedirect ==> HasSignKey(sp)
//@   frame [C17]
//@   assigns sp.signingContext, sp.signingContextMu.$mu
//@   exit [C14] endpoint: err == nil ==> SameURLButQuery(parsedUrl, sp.IdentityProviderSLOURL) && result == urlString(*parsedUrl)
//@   exit [C14] query: err == nil ==> parsedUrl.RawQuery == encodeQuery(qs.$keys, qs.$vals)
//@   exit [C14] request: err == nil ==> xmlOfRoot(logoutRequest) == doc.$root
//@        && firstFor(qs.$keys, qs.$vals, "SAMLRequest") == b64enc(deflateOf(bytes(logoutRequest)))
//@   exit [C14] relay: err == nil ==> (relayState != "" ==> firstFor(qs.$keys, qs.$vals, "RelayState") == relayState)
//@        && (relayState == "" ==> !hasKey(qs.$keys, "RelayState"))
//@   exit [C14] unsigned: err == nil && binding != BindingHttpRedirect ==> !hasKey(qs.$keys, "SigAlg") && !hasKey(qs.$keys, "Signature")
//@   exit [C14] signed: err == nil && binding == BindingHttpRedirect ==>
//@        firstFor(qs.$keys, qs.$vals, "SigAlg") == sigAlgOf(ctx)
//@        && firstFor(qs.$keys, qs.$vals, "Signature") == b64enc(sigBytes(ctx, SignedOctets(firstFor(qs.$keys, qs.$vals, "SAMLRequest"), relayState, sigAlgOf(ctx))))
//@        && ctx == sp.signingContext
