package main

// Evaluation of contract expressions over a symbolic state.

import (
	"fmt"
	"go/constant"
	"go/token"
	"go/types"
	"math/big"
	"strconv"
	"strings"

	"golang.org/x/tools/go/ssa"
)

type EvalCtx struct {
	x      *Exec
	st     *State
	old    *State
	env    map[string]Value
	sf     *SpecFile
	fr     *Frame
	pos    token.Pos
	depth  int
	atCall bool
	noUp   bool // lookupLocal: do not search the callers' frames (set while doing exactly that)
}

type specErr struct{ msg string }

func (e specErr) Error() string { return e.msg }

func (c *EvalCtx) errf(p SExpr, format string, a ...interface{}) specErr {
	return specErr{fmt.Sprintf("%s: %s", p.pos(), fmt.Sprintf(format, a...))}
}

func (c *EvalCtx) with(env map[string]Value) *EvalCtx {
	n := *c
	n.env = env
	return &n
}

func (c *EvalCtx) bind(name string, v Value) *EvalCtx {
	env := make(map[string]Value, len(c.env)+1)
	for k, x := range c.env {
		env[k] = x
	}
	env[name] = v
	return c.with(env)
}

func (x *Exec) evalBool(c *EvalCtx, e SExpr) *Term {
	v := x.eval(c, e)
	if v.Term == nil || v.Term.Sort != SBool {
		panic(c.errf(e, "expected a boolean expression"))
	}
	return v.Term
}

var boolT = types.Typ[types.Bool]
var intT = types.Typ[types.Int]
var stringT = types.Typ[types.String]

func (x *Exec) eval(c *EvalCtx, e SExpr) Value {
	w := x.w
	switch n := e.(type) {
	case *SLit:
		switch n.Kind {
		case "int":
			bi, ok := new(big.Int).SetString(n.Val, 0)
			if !ok {
				panic(c.errf(e, "bad integer %s", n.Val))
			}
			return Value{T: intT, Term: BigT(bi)}
		case "string":
			return Value{T: stringT, Term: w.Reg.StrLit(n.Val)}
		case "bool":
			return Value{T: boolT, Term: BoolT(n.Val == "true")}
		case "nil":
			return Value{T: types.Typ[types.UntypedNil]}
		}
	case *SIdent:
		return x.evalIdent(c, n)
	case *SUnary:
		switch n.Op {
		case "!":
			return Value{T: boolT, Term: Not(x.evalBool(c, n.X))}
		case "-":
			v := x.eval(c, n.X)
			return Value{T: v.T, Term: Sub(IntT(0), v.Term)}
		case "*":
			v := x.eval(c, n.X)
			return x.derefValue(c, v, e)
		case "&":
			l := x.evalLoc(c, n.X)
			if l == nil {
				panic(c.errf(e, "cannot take the address"))
			}
			return Value{T: types.NewPointer(l.Type()), Loc: l}
		}
	case *SBinary:
		return x.evalBinary(c, n)
	case *SCond:
		cond := x.evalBool(c, n.C)
		a, b := x.eval(c, n.A), x.eval(c, n.B)
		a, b = x.unifyNil(a, b)
		return Value{T: a.T, Term: Ite(cond, x.specTerm(c, a), x.specTerm(c, b))}
	case *SQuant:
		var bound []*Term
		cc := c
		for _, v := range n.Vars {
			t, err := w.ResolveType(c.sf, v.Type)
			if err != nil {
				panic(c.errf(e, "%v", err))
			}
			x.qctr++
			bv := Var(fmt.Sprintf("%s?%d", v.Name, x.qctr), w.SortOf(t))
			bound = append(bound, bv)
			cc = cc.bind(v.Name, Value{T: t, Term: bv})
		}
		body := x.evalBool(cc, n.Body)
		if len(bound) == 1 && bound[0].Sort == SInt {
			if ex := expandBounded(n.Kind, bound[0], body); ex != nil {
				return Value{T: boolT, Term: ex}
			}
		}
		if n.Kind == "forall" {
			return Value{T: boolT, Term: Forall(bound, body)}
		}
		return Value{T: boolT, Term: Exists(bound, body)}
	case *SLet:
		v := x.eval(c, n.Val)
		return x.eval(c.bind(n.Name, v), n.Body)
	case *SSelect:
		return x.evalSelect(c, n)
	case *SIndex:
		base := x.eval(c, n.X)
		idx := x.eval(c, n.I)
		switch u := types.Unalias(base.T).Underlying().(type) {
		case *types.Slice:
			return Value{T: u.Elem(), Term: w.SlAt(base.Term, idx.Term)}
		case *types.Array:
			return Value{T: u.Elem(), Term: Select(base.Term, idx.Term)}
		case *types.Pointer:
			if arr, ok := u.Elem().Underlying().(*types.Array); ok {
				av := x.derefValue(c, base, e)
				return Value{T: arr.Elem(), Term: Select(av.Term, idx.Term)}
			}
		case *types.Map:
			mv := sliceBase(w.mapValSort(u))
			content := x.heapRead(c.st, base.Term, base.T)
			has := And(Neq(base.Term, IntT(0)), w.MapHas(mv, content, idx.Term))
			return Value{T: u.Elem(), Term: Ite(has, w.MapGet(mv, content, idx.Term), w.ZeroTerm(u.Elem()))}
		}
		panic(c.errf(e, "cannot index %s", base.T))
	case *SSlice:
		base := x.eval(c, n.X)
		lo := IntT(0)
		if n.Lo != nil {
			lo = x.eval(c, n.Lo).Term
		}
		switch u := types.Unalias(base.T).Underlying().(type) {
		case *types.Slice:
			hi := w.SlLen(base.Term)
			if n.Hi != nil {
				hi = x.eval(c, n.Hi).Term
			}
			return Value{T: base.T, Term: w.SlSub(base.Term, lo, hi)}
		case *types.Basic:
			hi := w.Reg.Apply("strlen", base.Term)
			if n.Hi != nil {
				hi = x.eval(c, n.Hi).Term
			}
			return Value{T: base.T, Term: w.Reg.Apply("substr", base.Term, lo, hi)}
		case *types.Array:
			hi := IntT(u.Len())
			if n.Hi != nil {
				hi = x.eval(c, n.Hi).Term
			}
			st := types.NewSlice(u.Elem())
			return Value{T: st, Term: w.SlMk(w.SortOf(st), base.Term, lo, hi)}
		}
		panic(c.errf(e, "cannot slice %s", base.T))
	case *SCall:
		return x.evalCall(c, n)
	case *SComposite:
		t, err := w.ResolveType(c.sf, n.Type)
		if err != nil {
			panic(c.errf(e, "%v", err))
		}
		fs := w.StructFields(t)
		args := make([]*Term, len(fs))
		for i, f := range fs {
			args[i] = w.ZeroTerm(f.Type)
		}
		for _, fv := range n.Fields {
			found := false
			for i, f := range fs {
				if f.Name == fv.Name {
					v := x.eval(c, fv.Val)
					v = x.coerce(c, v, f.Type, e)
					args[i] = v.Term
					found = true
				}
			}
			if !found {
				panic(c.errf(e, "no field %s in %s", fv.Name, t))
			}
		}
		return Value{T: t, Term: w.MkStruct(t, args)}
	case *SAssert:
		v := x.eval(c, n.X)
		t, err := w.ResolveType(c.sf, n.Type)
		if err != nil {
			panic(c.errf(e, "%v", err))
		}
		if v.Term == nil || v.Term.Sort != SIface {
			panic(c.errf(e, "x.(T) needs an interface value"))
		}
		bn := w.boxName(t)
		if !w.boxedSeen[bn] {
			panic(c.errf(e, "type %s is never stored in an interface", t))
		}
		return Value{T: t, Term: w.Reg.Apply("unbox:"+bn, v.Term)}
	case *SIs:
		v := x.eval(c, n.X)
		t, err := w.ResolveType(c.sf, n.Type)
		if err != nil {
			panic(c.errf(e, "%v", err))
		}
		if v.Term == nil || v.Term.Sort != SIface {
			panic(c.errf(e, "'is' needs an interface value"))
		}
		bn := w.boxName(t)
		if !w.boxedSeen[bn] {
			return Value{T: boolT, Term: TFalse}
		}
		return Value{T: boolT, Term: w.Reg.Is("box:"+bn, v.Term)}
	}
	panic(c.errf(e, "unsupported expression %T", e))
}

// specTerm forces a value into a term (typed nil becomes the zero of its type).
func (x *Exec) specTerm(c *EvalCtx, v Value) *Term {
	if v.Term != nil {
		return v.Term
	}
	if b, ok := v.T.(*types.Basic); ok && b.Kind() == types.UntypedNil {
		panic(specErr{"untyped nil in a position that needs a type"})
	}
	return x.termOf(c.st, v)
}

func (x *Exec) unifyNil(a, b Value) (Value, Value) {
	isNil := func(v Value) bool {
		bt, ok := v.T.(*types.Basic)
		return ok && bt.Kind() == types.UntypedNil && v.Term == nil && v.Loc == nil
	}
	if isNil(a) && !isNil(b) {
		a = Value{T: b.T, Term: x.w.ZeroTerm(b.T)}
	} else if isNil(b) && !isNil(a) {
		b = Value{T: a.T, Term: x.w.ZeroTerm(a.T)}
	}
	return a, b
}

// coerce adapts a spec value to an expected Go type (nil, boxing into interfaces, untyped ints).
func (x *Exec) coerce(c *EvalCtx, v Value, to types.Type, e SExpr) Value {
	if bt, ok := v.T.(*types.Basic); ok && bt.Kind() == types.UntypedNil && v.Term == nil {
		return Value{T: to, Term: x.w.ZeroTerm(to)}
	}
	ts := x.w.SortOf(to)
	vt := x.specTerm(c, v)
	if vt.Sort == ts {
		return Value{T: to, Term: vt}
	}
	if ts == SIface {
		return Value{T: to, Term: x.w.Box(v.T, vt)}
	}
	panic(c.errf(e, "cannot use a value of type %s as %s", v.T, to))
}

func (x *Exec) evalIdent(c *EvalCtx, n *SIdent) Value {
	if v, ok := c.env[n.Name]; ok {
		return v
	}
	// local variable of the frame (loop invariants, site assertions)
	if c.fr != nil {
		if v, ok := x.lookupLocal(c, n.Name); ok {
			return v
		}
	}
	// package-level constant / variable of the spec's home package
	if home := x.w.specPkg[c.sf]; home != nil {
		if o := home.Scope().Lookup(n.Name); o != nil {
			if v, ok := x.objValue(c, o); ok {
				return v
			}
		}
	}
	panic(c.errf(n, "unknown identifier %s", n.Name))
}

func (x *Exec) objValue(c *EvalCtx, o types.Object) (Value, bool) {
	switch ob := o.(type) {
	case *types.Const:
		return Value{T: ob.Type(), Term: x.w.ConstTerm(ob.Type(), ob.Val())}, true
	case *types.Var:
		// package-level variable: immutable constant symbol
		if ob.Pkg() != nil && ob.Parent() == ob.Pkg().Scope() {
			name := "g:" + ob.Pkg().Name() + "." + ob.Name()
			return Value{T: ob.Type(), Term: Var(name, x.w.SortOf(ob.Type()))}, true
		}
	}
	return Value{}, false
}

// lookupLocal resolves a source-level local variable name at the evaluation position: the
// innermost declaration in scope, mapped to its SSA cell through the debug references.
func (x *Exec) lookupLocal(c *EvalCtx, name string) (Value, bool) {
	fr := c.fr
	var best *ssa.Alloc
	// candidates: executed allocs with that name in this frame
	var cands []*ssa.Alloc
	for a := range fr.cells {
		if a.Comment == name {
			cands = append(cands, a)
		}
	}
	for v := range fr.vals {
		if a, ok := v.(*ssa.Alloc); ok && a.Comment == name {
			dup := false
			for _, k := range cands {
				if k == a {
					dup = true
				}
			}
			if !dup {
				cands = append(cands, a)
			}
		}
	}
	if len(cands) == 0 {
		// parameters are copied into cells named after them; fall back to parameter values
		for i, p := range fr.fn.Params {
			if p.Name() == name {
				return fr.params[i], true
			}
		}
		// renamed local: fall back to the recorded fingerprint (type, ordinal among locals of that type)
		if h, ok := localHints[fr.fn.String()][name]; ok {
			if a := allocByHint(fr.fn, h); a != nil {
				if _, live := fr.vals[a]; live {
					cands = append(cands, a)
					x.rebound[name+" -> "+a.Comment+" in "+shortFn(fnKey(fr.fn))] = true
				}
			}
		}
		// renamed AND re-typed (e.g. an anonymous struct became a named type): the only live local with a name the
		// recorded tree did not have and the same kind of type
		if len(cands) == 0 {
			if h, ok := localHints[fr.fn.String()][name]; ok {
				known := localHints[fr.fn.String()]
				// new names that are plain renames of other recorded locals (same type and ordinal) are taken
				present := map[string]bool{}
				for _, a := range namedAllocs(fr.fn) {
					present[a.Comment] = true
				}
				taken := map[*ssa.Alloc]bool{}
				for oldName, oh := range known {
					if !present[oldName] && oldName != name {
						if a := allocByHint(fr.fn, oh); a != nil {
							taken[a] = true
						}
					}
				}
				var fresh []*ssa.Alloc
				for _, a := range namedAllocs(fr.fn) {
					if _, old := known[a.Comment]; old || taken[a] {
						continue
					}
					if _, live := fr.vals[a]; live && typeKindOf(allocTypeString(a), a) == hintKind(h) {
						fresh = append(fresh, a)
					}
				}
				if len(fresh) == 1 {
					cands = append(cands, fresh[0])
					x.rebound[name+" -> "+fresh[0].Comment+" (renamed and re-typed) in "+shortFn(fnKey(fr.fn))] = true
				}
			}
		}
		if len(cands) == 0 {
			// code moved into a helper that has been inlined and has returned: by name, else the only local of
			// the recorded type among the helpers' locals
			var hit *retiredLocal
			for i := range fr.retired {
				if fr.retired[i].name == name {
					hit = &fr.retired[i]
				}
			}
			if hit == nil {
				if h, ok := localHints[fr.fn.String()][name]; ok {
					names := map[string]bool{}
					for i := range fr.retired {
						if fr.retired[i].typ == h.Type {
							names[fr.retired[i].name] = true
							hit = &fr.retired[i]
						}
					}
					if len(names) != 1 {
						hit = nil
					}
				}
			}
			if hit == nil {
				// inside an inlined helper: a local of one of the callers on the inline stack
				if !c.noUp && c.st != nil {
					idx := -1
					for i, f := range c.st.frames {
						if f == fr {
							idx = i
						}
					}
					for j := idx - 1; j >= 0; j-- {
						uc := *c
						uc.fr, uc.noUp = c.st.frames[j], true
						if v, ok := x.lookupLocal(&uc, name); ok {
							return v, true
						}
					}
				}
				return Value{}, false
			}
			x.rebound[name+" -> "+hit.name+" (local of an inlined helper) in "+shortFn(fnKey(fr.fn))] = true
			return x.readLoc(c.st, x.ptrLoc(c.st, hit.ptr)), true
		}
	}
	if len(cands) == 1 {
		best = cands[0]
	} else {
		// use lexical scoping at the evaluation position
		var obj types.Object
		if c.pos.IsValid() && fr.fn.Pkg != nil {
			if sc := fr.fn.Pkg.Pkg.Scope().Innermost(c.pos); sc != nil {
				_, obj = sc.LookupParent(name, c.pos)
			}
		}
		for _, a := range cands {
			if obj != nil && a.Pos() == obj.Pos() {
				best = a
			}
		}
		if best == nil {
			// latest declared before the position
			for _, a := range cands {
				if best == nil || a.Pos() > best.Pos() {
					if !c.pos.IsValid() || a.Pos() <= c.pos {
						best = a
					}
				}
			}
		}
		if best == nil {
			best = cands[0]
		}
	}
	pv := fr.vals[best]
	l := x.ptrLoc(c.st, pv)
	return x.readLoc(c.st, l), true
}

func (x *Exec) derefValue(c *EvalCtx, v Value, e SExpr) Value {
	if v.Loc != nil {
		return x.readLoc(c.st, v.Loc)
	}
	pt, ok := types.Unalias(v.T).Underlying().(*types.Pointer)
	if !ok {
		panic(c.errf(e, "dereference of non-pointer %s", v.T))
	}
	return Value{T: pt.Elem(), Term: x.heapRead(c.st, v.Term, pt.Elem())}
}

func (x *Exec) evalSelect(c *EvalCtx, n *SSelect) Value {
	// package-qualified name?
	if id, ok := n.X.(*SIdent); ok {
		if _, isVar := c.env[id.Name]; !isVar {
			if _, isLocal := x.maybeLocal(c, id.Name); !isLocal {
				if p := x.w.pkgByName(c.sf, id.Name); p != nil {
					if o := p.Scope().Lookup(n.Sel); o != nil {
						if v, ok := x.objValue(c, o); ok {
							return v
						}
					}
					panic(c.errf(n, "unknown %s.%s", id.Name, n.Sel))
				}
			}
		}
	}
	base := x.eval(c, n.X)
	return x.selectField(c, base, n.Sel, n)
}

func (x *Exec) maybeLocal(c *EvalCtx, name string) (Value, bool) {
	if c.fr == nil {
		return Value{}, false
	}
	return x.lookupLocal(c, name)
}

func (x *Exec) selectField(c *EvalCtx, base Value, sel string, e SExpr) Value {
	t := types.Unalias(base.T)
	if h := x.w.HolderType(base.T); h != nil && base.Term != nil && strings.HasPrefix(sel, "$") {
		l := &Loc{Ref: base.Term, RootT: h}
		for i, f := range x.w.StructFields(h) {
			if f.Name == sel {
				return x.readLoc(c.st, l.extend(PathStep{Field: i, FT: f.Type}))
			}
		}
		panic(c.errf(e, "no ghost field %s on %s", sel, base.T))
	}
	if _, isPtr := t.Underlying().(*types.Pointer); isPtr || base.Loc != nil {
		var l *Loc
		if base.Loc != nil {
			l = base.Loc
		} else {
			l = x.ptrLoc(c.st, base)
		}
		fs := x.w.StructFields(l.Type())
		for i, f := range fs {
			if f.Name == sel {
				return x.readLoc(c.st, l.extend(PathStep{Field: i, FT: f.Type}))
			}
		}
		panic(c.errf(e, "no field %s in %s", sel, l.Type()))
	}
	if _, ok := t.Underlying().(*types.Struct); ok {
		for _, f := range x.w.StructFields(t) {
			if f.Name == sel {
				return Value{T: f.Type, Term: x.w.Reg.Apply(f.Sel, base.Term)}
			}
		}
		panic(c.errf(e, "no field %s in %s", sel, t))
	}
	panic(c.errf(e, "cannot select .%s from %s", sel, base.T))
}

// evalLoc evaluates an lvalue expression to a location (nil if it is not one).
func (x *Exec) evalLoc(c *EvalCtx, e SExpr) *Loc {
	ls := x.evalLocs(c, e)
	if len(ls) == 0 {
		return nil
	}
	return ls[0]
}

func (x *Exec) evalLocs(c *EvalCtx, e SExpr) []*Loc {
	switch n := e.(type) {
	case *SSelect:
		base := x.eval(c, n.X)
		var l *Loc
		if h := x.w.HolderType(base.T); h != nil && base.Term != nil && strings.HasPrefix(n.Sel, "$") {
			hl := &Loc{Ref: base.Term, RootT: h}
			for i, f := range x.w.StructFields(h) {
				if f.Name == n.Sel {
					return []*Loc{hl.extend(PathStep{Field: i, FT: f.Type})}
				}
			}
		}
		if base.Loc != nil {
			l = base.Loc
		} else if _, ok := types.Unalias(base.T).Underlying().(*types.Pointer); ok && base.Term != nil {
			l = x.ptrLoc(c.st, base)
		} else {
			bl := x.evalLoc(c, n.X)
			if bl == nil {
				return nil
			}
			l = bl
		}
		for i, f := range x.w.StructFields(l.Type()) {
			if f.Name == n.Sel {
				return []*Loc{l.extend(PathStep{Field: i, FT: f.Type})}
			}
		}
		panic(c.errf(e, "no field %s in %s", n.Sel, l.Type()))
	case *SUnary:
		if n.Op == "*" {
			v := x.eval(c, n.X)
			if v.Loc != nil {
				return []*Loc{v.Loc}
			}
			if v.Term != nil && v.Term.Sort == SIface {
				// *v for an interface value: the pointee of whichever pointer type it holds
				var out []*Loc
				for _, bt := range x.w.boxed {
					pt, ok := types.Unalias(bt).Underlying().(*types.Pointer)
					if !ok {
						continue
					}
					bn := x.w.boxName(bt)
					out = append(out, &Loc{Ref: x.w.Reg.Apply("unbox:"+bn, v.Term), RootT: pt.Elem(), Cond: x.w.Reg.Is("box:"+bn, v.Term)})
				}
				return out
			}
			return []*Loc{x.ptrLoc(c.st, v)}
		}
	case *SIdent:
		v := x.eval(c, n)
		if v.Loc != nil {
			return []*Loc{v.Loc}
		}
	case *SCall:
		if id, ok := n.Fun.(*SIdent); ok && id.Name == "backing" && len(n.Args) == 1 {
			sv := x.eval(c, n.Args[0])
			if bi := x.backing[sv.Term.Key()]; bi != nil {
				return []*Loc{bi.loc}
			}
			return nil // no known backing array: nothing observable is written in this model
		}
	}
	return nil
}

func (x *Exec) evalBinary(c *EvalCtx, n *SBinary) Value {
	switch n.Op {
	case "&&":
		return Value{T: boolT, Term: And(x.evalBool(c, n.X), x.evalBool(c, n.Y))}
	case "||":
		return Value{T: boolT, Term: Or(x.evalBool(c, n.X), x.evalBool(c, n.Y))}
	case "==>":
		return Value{T: boolT, Term: Implies(x.evalBool(c, n.X), x.evalBool(c, n.Y))}
	case "<==>":
		return Value{T: boolT, Term: Iff(x.evalBool(c, n.X), x.evalBool(c, n.Y))}
	}
	a, b := x.eval(c, n.X), x.eval(c, n.Y)
	switch n.Op {
	case "==", "!=":
		a, b = x.unifyNil(a, b)
		var eq *Term
		if a.Term != nil && b.Term != nil && a.Term.Sort != b.Term.Sort {
			if a.Term.Sort == SIface {
				eq = Eq(a.Term, x.w.Box(b.T, b.Term))
			} else if b.Term.Sort == SIface {
				eq = Eq(x.w.Box(a.T, a.Term), b.Term)
			} else {
				panic(c.errf(n, "comparison of %s (%s: %s) with %s (%s: %s)", a.T, a.Term.Sort, a.Term, b.T, b.Term.Sort, b.Term))
			}
		} else {
			eq = x.valuesEqual(c.st, a, b)
		}
		if n.Op == "!=" {
			eq = Not(eq)
		}
		return Value{T: boolT, Term: eq}
	case "<":
		return Value{T: boolT, Term: Lt(a.Term, b.Term)}
	case "<=":
		return Value{T: boolT, Term: Le(a.Term, b.Term)}
	case ">":
		return Value{T: boolT, Term: Gt(a.Term, b.Term)}
	case ">=":
		return Value{T: boolT, Term: Ge(a.Term, b.Term)}
	case "+":
		if a.Term.Sort == SStr {
			return Value{T: a.T, Term: x.strcat(a.Term, b.Term)}
		}
		return Value{T: a.T, Term: Add(a.Term, b.Term)}
	case "-":
		return Value{T: a.T, Term: Sub(a.Term, b.Term)}
	case "*":
		return Value{T: a.T, Term: Mul(a.Term, b.Term)}
	case "/":
		return Value{T: a.T, Term: DivFloor(a.Term, b.Term)}
	case "%":
		return Value{T: a.T, Term: ModFloor(a.Term, b.Term)}
	}
	panic(c.errf(n, "unsupported operator %s", n.Op))
}

func (x *Exec) evalCall(c *EvalCtx, n *SCall) Value {
	w := x.w
	// conversion / unboxing through a type name
	if ty := exprAsType(n.Fun); ty != nil && len(n.Args) == 1 {
		if t, err := w.ResolveType(c.sf, ty); err == nil {
			v := x.eval(c, n.Args[0])
			if v.Term != nil && v.Term.Sort == SIface && w.SortOf(t) != SIface {
				bn := w.boxName(t)
				if !w.boxedSeen[bn] {
					panic(c.errf(n, "type %s is never boxed", t))
				}
				return Value{T: t, Term: w.Reg.Apply("unbox:"+bn, v.Term)}
			}
			if w.SortOf(t) == SIface && v.Term != nil && v.Term.Sort != SIface {
				return Value{T: t, Term: w.Box(v.T, v.Term)}
			}
			return x.convert(c.st, v, t)
		}
	}
	id, ok := n.Fun.(*SIdent)
	if !ok {
		// method-like call on a package: pkg.Func(...) is not supported in specs
		panic(c.errf(n, "unsupported call form"))
	}
	switch id.Name {
	case "old":
		oc := *c
		oc.st = c.old
		oc.fr = nil
		return x.eval(&oc, n.Args[0])
	case "len":
		v := x.eval(c, n.Args[0])
		switch u := types.Unalias(v.T).Underlying().(type) {
		case *types.Slice:
			return Value{T: intT, Term: w.SlLen(v.Term)}
		case *types.Basic:
			return Value{T: intT, Term: w.Reg.Apply("strlen", v.Term)}
		case *types.Array:
			return Value{T: intT, Term: IntT(u.Len())}
		}
		panic(c.errf(n, "len of %s", v.T))
	case "has":
		m := x.eval(c, n.Args[0])
		k := x.eval(c, n.Args[1])
		mt := types.Unalias(m.T).Underlying().(*types.Map)
		mv := sliceBase(w.mapValSort(mt))
		content := x.heapRead(c.st, m.Term, m.T)
		return Value{T: boolT, Term: And(Neq(m.Term, IntT(0)), w.MapHas(mv, content, k.Term))}
	case "fresh":
		if c.atCall {
			panic(c.errf(n, "fresh(..) must not be used in a contract that is applied at call sites; use a `fresh r [when c]` clause"))
		}
		v := x.eval(c, n.Args[0])
		return Value{T: boolT, Term: Gt(x.specTerm(c, v), Var("alloc0", SInt))}
	case "called":
		// called(F): a call of repository function or method F precedes this point on the path
		fname := calleeNameArg(n.Args)
		if fname == "" || len(n.Args) != 1 {
			panic(c.errf(n, "called expects a function name or Receiver.Method"))
		}
		_, ok := c.st.lastCall[fname]
		if !ok {
			_, ok = c.st.lastArgs[fname]
		}
		return Value{T: boolT, Term: BoolT(ok)}
	case "lastres", "lastarg":
		// lastres(F, i) / lastarg(F, i): the i-th result / argument (receiver = 0) of the most recent call of F
		fname := calleeNameArg(n.Args[:1])
		if fname == "" || len(n.Args) != 2 {
			panic(c.errf(n, "%s expects (function, index)", id.Name))
		}
		il, ok := n.Args[1].(*SLit)
		if !ok || il.Kind != "int" {
			panic(c.errf(n, "%s: the index must be an integer literal", id.Name))
		}
		idx, _ := strconv.Atoi(il.Val)
		tab := c.st.lastCall
		if id.Name == "lastarg" {
			tab = c.st.lastArgs
		}
		vs, ok := tab[fname]
		if !ok || idx >= len(vs) || c.atCall {
			panic(c.errf(n, "unknown identifier %s(%s, %d): no such call precedes this point", id.Name, fname, idx))
		}
		return vs[idx]
	case "lasterr":
		// lasterr(F): the error (last) result of the most recent call of repository function or method F on this
		// path. Usable in exit clauses only: a return site that no call of F precedes does not bind the clause.
		fname := ""
		if len(n.Args) == 1 {
			switch a := n.Args[0].(type) {
			case *SIdent:
				fname = a.Name
			case *SSelect:
				if rid, ok := a.X.(*SIdent); ok {
					fname = rid.Name + "." + a.Sel // Receiver.Method
				}
			}
		}
		if fname == "" {
			panic(c.errf(n, "lasterr expects a function name or Receiver.Method"))
		}
		rs, ok := c.st.lastCall[fname]
		if !ok || len(rs) == 0 || c.atCall {
			panic(c.errf(n, "unknown identifier lasterr(%s): no call of it precedes this point", fname))
		}
		return rs[len(rs)-1]
	case "allocated":
		v := x.eval(c, n.Args[0])
		return Value{T: boolT, Term: Le(x.specTerm(c, v), c.st.watermark())}
	case "int", "int64", "byte", "uint8":
		v := x.eval(c, n.Args[0])
		return Value{T: builtinTypes[id.Name], Term: v.Term}
	case "string":
		v := x.eval(c, n.Args[0])
		return x.convert(c.st, v, stringT)
	case "bytes":
		v := x.eval(c, n.Args[0])
		return x.convert(c.st, v, types.NewSlice(types.Typ[types.Uint8]))
	case "append":
		a := x.eval(c, n.Args[0])
		b := x.eval(c, n.Args[1])
		return Value{T: a.T, Term: w.SlApp(a.Term, b.Term)}
	case "backing":
		// backing(s): the array that slice s was taken from (only for slices created by x[lo:hi] of an array)
		sv := x.eval(c, n.Args[0])
		bi := x.backing[sv.Term.Key()]
		if bi == nil {
			panic(c.errf(n, "backing(): the slice was not taken from an array in this function"))
		}
		return x.readLoc(c.st, bi.loc)
	case "apply":
		// apply(f, args...): the (first) result of calling function value f, as the engine models dynamic calls
		f := x.eval(c, n.Args[0])
		sig, ok := types.Unalias(f.T).Underlying().(*types.Signature)
		if !ok || sig.Results().Len() < 1 {
			panic(c.errf(n, "apply needs a function value with a result"))
		}
		sorts := []string{SInt}
		ts := []*Term{x.termOf(c.st, f)}
		for i, a := range n.Args[1:] {
			av := x.eval(c, a)
			if i < sig.Params().Len() {
				av = x.coerce(c, av, sig.Params().At(i).Type(), n)
			}
			sorts = append(sorts, av.Term.Sort)
			ts = append(ts, av.Term)
		}
		rt := sig.Results().At(0).Type()
		name := fmt.Sprintf("dyncall%d:%s", 0, mangleSort(strings.Join(sorts, ",")))
		w.Reg.DeclareFunc(name, sorts, w.SortOf(rt))
		return Value{T: rt, Term: w.Reg.Apply(name, ts...)}
	case "seq1":
		// one-element slice of the argument's type
		v := x.eval(c, n.Args[0])
		st := types.NewSlice(v.T)
		arr := Store(w.ZeroTerm(types.NewArray(v.T, 1)), IntT(0), v.Term)
		return Value{T: st, Term: w.SlMk(w.SortOf(st), arr, IntT(0), IntT(1))}
	}
	if pf, ok := w.Pures[id.Name]; ok {
		if c.depth > 40 {
			panic(c.errf(n, "pure function expansion too deep (recursion?)"))
		}
		if len(n.Args) != len(pf.Params) {
			panic(c.errf(n, "%s expects %d arguments", pf.Name, len(pf.Params)))
		}
		env := map[string]Value{}
		home := pureHome[pf]
		for i, p := range pf.Params {
			v := x.eval(c, n.Args[i])
			if pt, err := w.ResolveType(home, p.Type); err == nil {
				if bt, ok := v.T.(*types.Basic); ok && bt.Kind() == types.UntypedNil && v.Term == nil {
					v = Value{T: pt, Term: w.ZeroTerm(pt)}
				} else if v.Loc == nil {
					v.T = pt
				}
			}
			env[p.Name] = v
		}
		nc := *c
		nc.env = env
		nc.sf = home
		nc.fr = nil
		nc.depth = c.depth + 1
		return x.eval(&nc, pf.Body)
	}
	if gf, ok := w.GhostFuncs[id.Name]; ok {
		home := ghostHome[gf]
		var sorts []string
		var args []*Term
		if len(n.Args) != len(gf.Params) {
			panic(c.errf(n, "%s expects %d arguments", gf.Name, len(gf.Params)))
		}
		for i, p := range gf.Params {
			pt, err := w.ResolveType(home, p.Type)
			if err != nil {
				panic(c.errf(n, "%v", err))
			}
			v := x.coerce(c, x.eval(c, n.Args[i]), pt, n)
			sorts = append(sorts, w.SortOf(pt))
			args = append(args, v.Term)
		}
		rt, err := w.ResolveType(home, gf.Result)
		if err != nil {
			panic(c.errf(n, "%v", err))
		}
		w.Reg.DeclareFunc("ghost:"+gf.Name, sorts, w.SortOf(rt))
		return Value{T: rt, Term: w.Reg.Apply("ghost:"+gf.Name, args...)}
	}
	panic(c.errf(n, "unknown function %s", id.Name))
}

var _ = constant.MakeBool
var _ = strings.TrimSpace

// calleeNameArg: `F` or `Receiver.Method` as written in lasterr/lastres/lastarg/called.
func calleeNameArg(args []SExpr) string {
	if len(args) < 1 {
		return ""
	}
	switch a := args[0].(type) {
	case *SIdent:
		return a.Name
	case *SSelect:
		if rid, ok := a.X.(*SIdent); ok {
			return rid.Name + "." + a.Sel
		}
	}
	return ""
}
