package main

// Merging of simple if-diamonds (straight-line branches without calls) into ite-terms, so
// that sequences of independent `if c { x.f = v }` statements do not multiply paths.

import (
	"golang.org/x/tools/go/ssa"
)

func (x *Exec) simpleBranch(b, join *ssa.BasicBlock, li *loopInfo) bool {
	if len(b.Preds) != 1 || len(b.Succs) != 1 || b.Succs[0] != join || li.byHeader[b] != nil {
		return false
	}
	for _, in := range b.Instrs {
		switch i := in.(type) {
		case *ssa.DebugRef, *ssa.Store, *ssa.UnOp, *ssa.BinOp, *ssa.FieldAddr, *ssa.Field, *ssa.IndexAddr, *ssa.Index,
			*ssa.MakeInterface, *ssa.ChangeType, *ssa.Convert, *ssa.ChangeInterface, *ssa.Jump, *ssa.Slice:
		case *ssa.Alloc:
			if i.Heap && !x.cellLike(i) {
				return false
			}
		case *ssa.Call:
			if bi, ok := i.Call.Value.(*ssa.Builtin); ok {
				if bi.Name() != "len" && bi.Name() != "append" {
					return false
				}
				continue
			}
			// calls that are handled modularly (contract, no inlining, no iterator) do not fork paths
			if !x.modularCall(&i.Call) {
				return false
			}
		default:
			return false
		}
	}
	return true
}

// tryMergeDiamond handles `if c goto T else F` where T (and optionally F) are simple blocks that
// rejoin at the same block. Returns true if it advanced the state to the join block.
func (x *Exec) tryMergeDiamond(s *State, fr *Frame, c *Term, tb, fb *ssa.BasicBlock) bool {
	if sp := x.w.FuncSpecs[fnKey(fr.fn)]; sp != nil && sp.NoMerge {
		return false
	}
	li := x.loopsOf(fr.fn)
	var join *ssa.BasicBlock
	switch {
	case len(tb.Succs) == 1 && tb.Succs[0] == fb && x.simpleBranch(tb, fb, li):
		join = fb
	case len(fb.Succs) == 1 && fb.Succs[0] == tb && x.simpleBranch(fb, tb, li):
		join = tb
	case len(tb.Succs) == 1 && len(fb.Succs) == 1 && tb.Succs[0] == fb.Succs[0] && x.simpleBranch(tb, tb.Succs[0], li) && x.simpleBranch(fb, fb.Succs[0], li):
		join = tb.Succs[0]
	default:
		return false
	}
	if li.byHeader[join] != nil {
		return false
	}
	for _, in := range join.Instrs {
		if _, isPhi := in.(*ssa.Phi); isPhi {
			return false
		}
	}
	n0 := len(s.pc)
	runBranch := func(cond *Term, b *ssa.BasicBlock) *State {
		st := s.clone()
		st.assume(cond)
		if b == join {
			return st
		}
		f := st.top()
		f.prev, f.block, f.ip = fr.block, b, 0
		for _, in := range b.Instrs {
			if _, isJ := in.(*ssa.Jump); isJ {
				break
			}
			if st.dead {
				break
			}
			x.step(st, f, in)
		}
		return st
	}
	saveObls := len(x.obls)
	s1 := runBranch(c, tb)
	s2 := runBranch(Not(c), fb)
	// check mergeability of non-term cell values
	ok := s1.epoch == s2.epoch
	if ok {
		for cell, v1 := range s1.cellVal {
			v2, has := s2.cellVal[cell]
			if !has {
				continue
			}
			if (v1.Term == nil) != (v2.Term == nil) {
				ok = false
				break
			}
			if v1.Term == nil && !sameMeta(v1, v2) {
				ok = false
				break
			}
		}
	}
	if !ok {
		x.obls = x.obls[:saveObls]
		return false
	}
	if s1.dead && s2.dead {
		s.dead = true
		return true
	}
	// calls made inside a merged branch are not the "most recent call on this path" any more (lasterr)
	for _, b := range []*State{s1, s2} {
		for name, rs := range b.lastCall {
			if old, had := s.lastCall[name]; !had || len(old) != len(rs) || (len(rs) > 0 && old[len(old)-1].Term != rs[len(rs)-1].Term) {
				delete(s.lastCall, name)
			}
		}
	}
	for _, b := range []*State{s1, s2} {
		for name, as := range b.lastArgs {
			if old, had := s.lastArgs[name]; !had || len(old) != len(as) || (len(as) > 0 && old[len(old)-1].Term != as[len(as)-1].Term) {
				delete(s.lastArgs, name)
			}
		}
	}
	// merge into s
	for cell, v1 := range s1.cellVal {
		v2, has := s2.cellVal[cell]
		if !has || v1.Term == nil {
			s.cellVal[cell] = v1
			continue
		}
		nv := v1
		nv.Term = Ite(c, v1.Term, v2.Term)
		s.cellVal[cell] = nv
	}
	for cell, v2 := range s2.cellVal {
		if _, has := s1.cellVal[cell]; !has {
			s.cellVal[cell] = v2
		}
	}
	keys := map[string]bool{}
	for k := range s1.heap {
		keys[k] = true
	}
	for k := range s2.heap {
		keys[k] = true
	}
	for k := range keys {
		h1, ok1 := s1.heap[k]
		h2, ok2 := s2.heap[k]
		es := s.heapSort[k]
		if !ok1 {
			h1 = x.heapArr(s1, k, es)
		}
		if !ok2 {
			h2 = x.heapArr(s2, k, es)
		}
		s.heap[k] = Ite(c, h1, h2)
	}
	for _, a := range s1.pc[n0+1:] {
		s.assume(Implies(c, a))
	}
	if len(s2.pc) > n0 {
		for _, a := range s2.pc[n0+1:] {
			s.assume(Implies(Not(c), a))
		}
	}
	if s1.dead {
		s.assume(Not(c))
	}
	if s2.dead {
		s.assume(c)
	}
	if s1.allocBase != s2.allocBase {
		// cannot happen for simple branches (no loop cuts inside)
		panic(x.subsetf("diamond merge across different allocation bases"))
	}
	if s2.nalloc > s1.nalloc {
		s.nalloc = s2.nalloc
	} else {
		s.nalloc = s1.nalloc
	}
	f1, f2 := s1.top(), s2.top()
	for a, cl := range f1.cells {
		fr.cells[a] = cl
	}
	for a, cl := range f2.cells {
		fr.cells[a] = cl
	}
	for v, val := range f1.vals {
		if _, has := fr.vals[v]; !has {
			fr.vals[v] = val
		}
	}
	for v, val := range f2.vals {
		if _, has := fr.vals[v]; !has {
			fr.vals[v] = val
		}
	}
	fr.prev = tb
	fr.block = join
	fr.ip = 0
	return true
}

func sameMeta(a, b Value) bool {
	if a.Loc != nil && b.Loc != nil {
		if a.Loc.Cell != b.Loc.Cell || len(a.Loc.Path) != len(b.Loc.Path) {
			return false
		}
		if (a.Loc.Ref == nil) != (b.Loc.Ref == nil) || a.Loc.Ref != nil && a.Loc.Ref.Key() != b.Loc.Ref.Key() {
			return false
		}
		for i := range a.Loc.Path {
			p, q := a.Loc.Path[i], b.Loc.Path[i]
			if p.IsIdx != q.IsIdx || p.Field != q.Field || p.IsIdx && p.Idx.Key() != q.Idx.Key() {
				return false
			}
		}
		return true
	}
	if a.Clo != nil || b.Clo != nil {
		return a.Clo == b.Clo
	}
	if a.Fn != nil || b.Fn != nil {
		return a.Fn == b.Fn
	}
	return a.Loc == nil && b.Loc == nil && a.Tup == nil && b.Tup == nil
}

// modularCall reports whether the call will be executed through a contract (callSpec) without pushing a frame.
func (x *Exec) modularCall(c *ssa.CallCommon) bool {
	var key string
	inRepo := false
	if c.IsInvoke() {
		key = funcKeyOf(c.Method)
	} else if fn, ok := c.Value.(*ssa.Function); ok {
		key = fnKey(fn)
		inRepo = fn.Pkg != nil && fn.Pkg.Pkg != nil && len(fn.Blocks) > 0 && len(fn.Pkg.Pkg.Path()) >= len(repoModule) && fn.Pkg.Pkg.Path()[:len(repoModule)] == repoModule
	} else {
		return false
	}
	spec := x.w.FuncSpecs[key]
	if spec == nil || iterSpecKeys[key] {
		return false
	}
	if spec.Inline && inRepo {
		return false
	}
	return true
}
