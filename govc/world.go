package main

// World: the loaded program (go/packages + go/ssa naive form), the Go-type -> SMT-sort
// mapping and the symbol tables shared by the executor and the contract evaluator.

import (
	"fmt"
	"go/constant"
	"go/token"
	"go/types"
	"math/big"
	"os"
	"path/filepath"
	"sort"
	"strings"

	"golang.org/x/tools/go/packages"
	"golang.org/x/tools/go/ssa"
	"golang.org/x/tools/go/ssa/ssautil"
)

type ghostFieldInfo struct {
	Name string
	Type types.Type
}

type World struct {
	Reg      *Registry
	Fset     *token.FileSet
	Pkgs     []*packages.Package
	Prog     *ssa.Program
	RepoPkgs map[string]*ssa.Package // import path -> ssa package (the three repo packages)
	AllPkgs  map[string]*types.Package

	qnames    map[*types.TypeName]string
	qtaken    map[string]*types.TypeName
	anon      map[string]string // types.TypeString -> anon struct name
	ghost     map[string][]ghostFieldInfo
	boxed     []types.Type
	boxedSeen map[string]bool
	ifaceDone bool

	Specs      []*SpecFile
	FuncSpecs  map[string]*FuncSpec // canonical function key -> spec
	Pures      map[string]*PureFunc
	GhostFuncs map[string]*GhostFunc
	specPkg    map[*SpecFile]*types.Package

	RepoDir       string
	Warn          []string
	Guards        map[string]*guardInfo // "<struct name>.<field index>" -> guard
	PointeeGuards map[string]*pointeeGuard
	holders       map[string]types.Type // ghost-field holder structs of named non-struct types (e.g. url.Values)
}

type pointeeGuard struct {
	Owner      types.Type
	MutexField int
	Tags       []string
	Name       string
}

type guardInfo struct {
	MutexField int
	Tags       []string
	Name       string
}

const repoModule = "github.com/russellhaering/gosaml2"

func LoadWorld(repoDir string) (*World, error) {
	cfg := &packages.Config{
		Mode:       packages.LoadAllSyntax,
		Dir:        repoDir,
		BuildFlags: []string{"-tags=verif"},
		Env:        append(os.Environ(), "GOFLAGS=-mod=mod", "GOPROXY=off", "GOSUMDB=off", "GOTOOLCHAIN=local"),
	}
	pkgs, err := packages.Load(cfg, ".", "./types", "./uuid")
	if err != nil {
		return nil, err
	}
	nerr := 0
	packages.Visit(pkgs, nil, func(p *packages.Package) {
		for _, e := range p.Errors {
			if strings.HasPrefix(p.PkgPath, repoModule) {
				fmt.Fprintf(os.Stderr, "load error: %v\n", e)
				nerr++
			}
		}
	})
	if nerr > 0 {
		return nil, fmt.Errorf("%d type errors in %s", nerr, repoDir)
	}
	prog, spkgs := ssautil.AllPackages(pkgs, ssa.NaiveForm|ssa.GlobalDebug)
	prog.Build()
	w := &World{Reg: NewRegistry(), Fset: pkgs[0].Fset, Pkgs: pkgs, Prog: prog, RepoPkgs: map[string]*ssa.Package{},
		AllPkgs: map[string]*types.Package{}, qnames: map[*types.TypeName]string{}, qtaken: map[string]*types.TypeName{},
		anon: map[string]string{}, ghost: map[string][]ghostFieldInfo{}, boxedSeen: map[string]bool{},
		FuncSpecs: map[string]*FuncSpec{}, Pures: map[string]*PureFunc{}, GhostFuncs: map[string]*GhostFunc{},
		specPkg: map[*SpecFile]*types.Package{}, RepoDir: repoDir}
	curReg = w.Reg
	for i, p := range pkgs {
		if spkgs[i] != nil {
			w.RepoPkgs[p.PkgPath] = spkgs[i]
		}
	}
	packages.Visit(pkgs, nil, func(p *packages.Package) {
		if p.Types != nil {
			w.AllPkgs[p.PkgPath] = p.Types
		}
	})
	w.initBaseDecls()
	return w, nil
}

// ---------------------------------------------------------------------------
// naming
// ---------------------------------------------------------------------------

func (w *World) QName(tn *types.TypeName) string {
	if n, ok := w.qnames[tn]; ok {
		return n
	}
	base := tn.Name()
	if tn.Pkg() != nil {
		base = tn.Pkg().Name() + "." + tn.Name()
	}
	n := base
	for i := 2; ; i++ {
		if other, taken := w.qtaken[n]; !taken || other == tn {
			break
		}
		n = fmt.Sprintf("%s#%d", base, i)
	}
	// function-local named types may share a name: disambiguate by position
	w.qtaken[n] = tn
	w.qnames[tn] = n
	return n
}

func mangleSort(s string) string {
	s = strings.NewReplacer("!", ":", "<", "[", ">", "]", "%", "#").Replace(s)
	return strings.Map(func(r rune) rune {
		switch r {
		case '(', ')', '|':
			return -1
		case ' ':
			return '_'
		}
		return r
	}, s)
}

// ---------------------------------------------------------------------------
// sorts
// ---------------------------------------------------------------------------

func (w *World) initBaseDecls() {
	r := w.Reg
	r.DeclareFunc("strlen", []string{SStr}, SInt)
	r.DeclareFunc("strcat", []string{SStr, SStr}, SStr)
	r.DeclareFunc("substr", []string{SStr, SInt, SInt}, SStr)
	s := Var("s", SStr)
	t := Var("t", SStr)
	// NOTE (consistency): the universal axioms describe mathematical finite sequences / strings of unbounded length
	// (model: a nil flag, a length n >= 0 and a total function Int -> elem). The address-space bound on lengths
	// (<= 2^56) is NOT universal -- together with len(app(s,t)) = len s + len t it would be inconsistent -- it is
	// assumed only for values whose length the program actually takes (the len builtin, range loops): lenBound.
	r.AddAxiom("strlen.nonneg", []string{"strlen"}, Forall([]*Term{s}, Ge(r.Apply("strlen", s), IntT(0)), []*Term{r.Apply("strlen", s)}))
	r.AddAxiom("strlen.empty", []string{"strlen"}, Forall([]*Term{s}, Eq(Eq(r.Apply("strlen", s), IntT(0)), Eq(s, r.StrLit(""))), []*Term{r.Apply("strlen", s)}))
	u := Var("u", SStr)
	r.AddAxiom("strcat.assoc", []string{"strcat"}, Forall([]*Term{s, t, u},
		Eq(r.Apply("strcat", r.Apply("strcat", s, t), u), r.Apply("strcat", s, r.Apply("strcat", t, u))),
		[]*Term{r.Apply("strcat", r.Apply("strcat", s, t), u)}))
	cat := r.Apply("strcat", s, t)
	r.AddAxiom("strcat.len", []string{"strcat"}, Forall([]*Term{s, t}, Eq(r.Apply("strlen", cat), Add(r.Apply("strlen", s), r.Apply("strlen", t))), []*Term{cat}))
}

func (w *World) isStructType(t types.Type) (*types.Struct, bool) {
	s, ok := t.Underlying().(*types.Struct)
	return s, ok
}

// structName returns the datatype base name for a struct-typed Go type.
func (w *World) structName(t types.Type) string {
	t = types.Unalias(t)
	if n, ok := t.(*types.Named); ok {
		return w.QName(n.Obj())
	}
	k := types.TypeString(t, nil)
	if n, ok := w.anon[k]; ok {
		return n
	}
	n := fmt.Sprintf("anon%d", len(w.anon))
	w.anon[k] = n
	return n
}

func fieldSel(sname string, i int, f *types.Var) string {
	n := f.Name()
	if n == "_" || n == "" {
		n = fmt.Sprintf("_%d", i)
	}
	return sname + "." + n
}

// SortOf maps a Go type to its SMT sort (declaring it on first use).
func (w *World) SortOf(t types.Type) string {
	t = types.Unalias(t)
	switch u := t.(type) {
	case *types.Named:
		if _, ok := u.Underlying().(*types.Struct); ok {
			return w.structSort(t)
		}
		if _, ok := u.Underlying().(*types.Interface); ok {
			return w.ifaceSort()
		}
		return w.SortOf(u.Underlying())
	case *types.TypeParam:
		return w.ifaceSort()
	case *types.Basic:
		switch {
		case u.Info()&types.IsBoolean != 0:
			return SBool
		case u.Info()&types.IsInteger != 0:
			return SInt
		case u.Info()&types.IsString != 0:
			return SStr
		case u.Kind() == types.UnsafePointer:
			return SInt
		case u.Kind() == types.UntypedNil:
			return SInt
		case u.Info()&types.IsFloat != 0:
			return SInt // unsupported arithmetic; never interpreted
		}
		return SInt
	case *types.Pointer, *types.Map, *types.Signature, *types.Chan:
		return SInt
	case *types.Struct:
		return w.structSort(t)
	case *types.Interface:
		return w.ifaceSort()
	case *types.Slice:
		return w.sliceSort(w.SortOf(u.Elem()))
	case *types.Array:
		return ArraySort(SInt, w.SortOf(u.Elem()))
	case *types.Tuple:
		panic("SortOf(tuple)")
	}
	panic(fmt.Sprintf("SortOf: unsupported type %T %s", t, t))
}

func (w *World) structSort(t types.Type) string {
	st, _ := w.isStructType(t)
	name := w.structName(t)
	dtName := "S:" + name
	if _, ok := w.Reg.dts[dtName]; ok {
		return sym(dtName)
	}
	dt := &Datatype{Name: dtName}
	// register first so that recursive references through slices terminate
	w.Reg.dts[dtName] = dt
	c := DTCtor{Name: "mk:" + name}
	for i := 0; i < st.NumFields(); i++ {
		f := st.Field(i)
		c.Fields = append(c.Fields, DTField{fieldSel(name, i, f), w.SortOf(f.Type())})
	}
	for _, g := range w.ghost[name] {
		c.Fields = append(c.Fields, DTField{name + "." + g.Name, w.SortOf(g.Type)})
	}
	dt.Ctors = []DTCtor{c}
	delete(w.Reg.dts, dtName)
	w.Reg.DeclareDatatype(dt)
	return sym(dtName)
}

// HolderType: ghost fields declared on a named non-struct type T (a map such as url.Values) live in a synthetic
// struct "T$ghost" stored in the heap at the reference that is the T value. Returns nil if T has none.
func (w *World) HolderType(t types.Type) types.Type {
	n, ok := types.Unalias(t).(*types.Named)
	if !ok {
		return nil
	}
	if _, isStruct := n.Underlying().(*types.Struct); isStruct {
		return nil
	}
	name := w.structName(n)
	gs := w.ghost[name]
	if len(gs) == 0 {
		return nil
	}
	if w.holders == nil {
		w.holders = map[string]types.Type{}
	}
	if h, ok := w.holders[name]; ok {
		return h
	}
	var fields []*types.Var
	for _, g := range gs {
		fields = append(fields, types.NewField(token.NoPos, n.Obj().Pkg(), g.Name, g.Type, false))
	}
	tn := types.NewTypeName(token.NoPos, n.Obj().Pkg(), n.Obj().Name()+"$ghost", nil)
	h := types.NewNamed(tn, types.NewStruct(fields, nil), nil)
	w.holders[name] = h
	return h
}

// StructFields lists selector names / go types (including ghost fields) of a struct type.
type fieldInfo struct {
	Sel   string
	Name  string
	Type  types.Type
	Ghost bool
	Var   *types.Var
}

func (w *World) StructFields(t types.Type) []fieldInfo {
	st, ok := w.isStructType(t)
	if !ok {
		return nil
	}
	name := w.structName(t)
	var out []fieldInfo
	for i := 0; i < st.NumFields(); i++ {
		f := st.Field(i)
		out = append(out, fieldInfo{fieldSel(name, i, f), f.Name(), f.Type(), false, f})
	}
	for _, g := range w.ghost[name] {
		out = append(out, fieldInfo{name + "." + g.Name, g.Name, g.Type, true, nil})
	}
	return out
}

func (w *World) MkStruct(t types.Type, fields []*Term) *Term {
	w.SortOf(t)
	return w.Reg.Apply("mk:"+w.structName(t), fields...)
}

func (w *World) sliceSort(elem string) string {
	name := "Sl:" + mangleSort(elem)
	q := sym(name)
	if w.Reg.usorts[name] {
		return q
	}
	r := w.Reg
	r.DeclareSort(name)
	r.DeclareFunc("len:"+name, []string{q}, SInt)
	r.DeclareFunc("at:"+name, []string{q, SInt}, elem)
	r.DeclareFunc("nil:"+name, nil, q)
	r.DeclareFunc("mk:"+name, []string{ArraySort(SInt, elem), SInt, SInt}, q)
	r.DeclareFunc("app:"+name, []string{q, q}, q)
	r.DeclareFunc("sub:"+name, []string{q, SInt, SInt}, q)
	s, t := Var("s", q), Var("t", q)
	i, lo, hi := Var("i", SInt), Var("lo", SInt), Var("hi", SInt)
	a := Var("a", ArraySort(SInt, elem))
	ln := func(x *Term) *Term { return r.Apply("len:"+name, x) }
	at := func(x, j *Term) *Term { return r.Apply("at:"+name, x, j) }
	trig := []string{"len:" + name, "at:" + name, "mk:" + name, "app:" + name, "sub:" + name, name}
	r.AddAxiom(name+".len", trig, Forall([]*Term{s}, Ge(ln(s), IntT(0)), []*Term{ln(s)}))
	r.AddAxiom(name+".nil", []string{"nil:" + name}, Eq(ln(r.Apply("nil:"+name)), IntT(0)))
	mk := r.Apply("mk:"+name, a, lo, hi)
	r.AddAxiom(name+".mk.len", []string{"mk:" + name}, Forall([]*Term{a, lo, hi},
		And(Implies(And(Le(IntT(0), lo), Le(lo, hi)), Eq(ln(mk), Sub(hi, lo))), Neq(mk, r.Apply("nil:"+name))), []*Term{mk}))
	r.AddAxiom(name+".mk.at", []string{"mk:" + name}, Forall([]*Term{a, lo, hi, i},
		Eq(at(mk, i), Select(a, Add(lo, i))), []*Term{at(mk, i)}))
	ap := r.Apply("app:"+name, s, t)
	r.AddAxiom(name+".app.len", []string{"app:" + name}, Forall([]*Term{s, t}, Eq(ln(ap), Add(ln(s), ln(t))), []*Term{ap}))
	r.AddAxiom(name+".app.at", []string{"app:" + name}, Forall([]*Term{s, t, i},
		Eq(at(ap, i), Ite(Lt(i, ln(s)), at(s, i), at(t, Sub(i, ln(s))))), []*Term{at(ap, i)}))
	sb := r.Apply("sub:"+name, s, lo, hi)
	r.AddAxiom(name+".sub.len", []string{"sub:" + name}, Forall([]*Term{s, lo, hi},
		Implies(And(Le(IntT(0), lo), Le(lo, hi)), Eq(ln(sb), Sub(hi, lo))), []*Term{sb}))
	r.AddAxiom(name+".sub.at", []string{"sub:" + name}, Forall([]*Term{s, lo, hi, i},
		Eq(at(sb, i), at(s, Add(lo, i))), []*Term{at(sb, i)}))
	return q
}

func sliceBase(sort string) string { return unsym(sort) }

func (w *World) SlLen(s *Term) *Term {
	b := sliceBase(s.Sort)
	if s.K == KApp && s.Name == "ite" {
		return Ite(s.Args[0], w.SlLen(s.Args[1]), w.SlLen(s.Args[2]))
	}
	// len(app(s, mk(a,0,1))) etc. fold a little
	if s.K == KApp {
		switch s.Name {
		case "nil:" + b:
			return IntT(0)
		case "mk:" + b:
			if s.Args[1].IsLit() && s.Args[2].IsLit() {
				return Sub(s.Args[2], s.Args[1])
			}
		case "app:" + b:
			return Add(w.SlLen(s.Args[0]), w.SlLen(s.Args[1]))
		}
	}
	return w.Reg.Apply("len:"+b, s)
}

func (w *World) SlAt(s, i *Term) *Term {
	b := sliceBase(s.Sort)
	if s.K == KApp && s.Name == "ite" {
		return Ite(s.Args[0], w.SlAt(s.Args[1], i), w.SlAt(s.Args[2], i))
	}
	if s.K == KApp {
		switch s.Name {
		case "mk:" + b:
			return Select(s.Args[0], Add(s.Args[1], i))
		case "app:" + b:
			l0 := w.SlLen(s.Args[0])
			if l0.IsLit() && i.IsLit() {
				if i.I.Cmp(l0.I) < 0 {
					return w.SlAt(s.Args[0], i)
				}
				return w.SlAt(s.Args[1], Sub(i, l0))
			}
		}
	}
	return w.Reg.Apply("at:"+b, s, i)
}

func (w *World) SlNil(sort string) *Term { return w.Reg.Apply("nil:" + sliceBase(sort)) }
func (w *World) SlMk(sort string, arr, lo, hi *Term) *Term {
	return w.Reg.Apply("mk:"+sliceBase(sort), arr, lo, hi)
}
func (w *World) SlApp(s, t *Term) *Term {
	b := sliceBase(s.Sort)
	if s.K == KApp && s.Name == "nil:"+b {
		// append(nil, t...) has t's elements; the result is non-nil only if len(t) > 0: keep symbolic
	}
	return w.Reg.Apply("app:"+b, s, t)
}
func (w *World) SlSub(s, lo, hi *Term) *Term {
	return w.Reg.Apply("sub:"+sliceBase(s.Sort), s, lo, hi)
}

// ---- maps: a map value is a Ref into the heap map "HM:<K>:<V>" holding MapVal contents ----

func (w *World) mapValSort(m *types.Map) string {
	k, v := w.SortOf(m.Key()), w.SortOf(m.Elem())
	name := "Mp:" + mangleSort(k) + ":" + mangleSort(v)
	q := sym(name)
	if w.Reg.usorts[name] {
		return q
	}
	r := w.Reg
	r.DeclareSort(name)
	r.DeclareFunc("has:"+name, []string{q, k}, SBool)
	r.DeclareFunc("get:"+name, []string{q, k}, v)
	r.DeclareFunc("put:"+name, []string{q, k, v}, q)
	r.DeclareFunc("empty:"+name, nil, q)
	mv, kk, k2, vv := Var("m", q), Var("k", k), Var("k2", k), Var("v", v)
	put := r.Apply("put:"+name, mv, kk, vv)
	r.AddAxiom(name+".put.has", []string{"put:" + name}, Forall([]*Term{mv, kk, vv, k2},
		Eq(r.Apply("has:"+name, put, k2), Or(Eq(k2, kk), r.Apply("has:"+name, mv, k2))), []*Term{r.Apply("has:"+name, put, k2)}))
	r.AddAxiom(name+".put.get", []string{"put:" + name}, Forall([]*Term{mv, kk, vv, k2},
		Eq(r.Apply("get:"+name, put, k2), Ite(Eq(k2, kk), vv, r.Apply("get:"+name, mv, k2))), []*Term{r.Apply("get:"+name, put, k2)}))
	r.AddAxiom(name+".empty", []string{"empty:" + name}, Forall([]*Term{kk},
		Not(r.Apply("has:"+name, r.Apply("empty:"+name), kk)), []*Term{r.Apply("has:"+name, r.Apply("empty:"+name), kk)}))
	return q
}

// MapHas / MapGet fold lookups over put(...) chains with syntactically equal or distinct (literal) keys.
func (w *World) keysDistinct(a, b *Term) bool {
	if a.K == KVar && b.K == KVar && w.Reg.strLits[a.Name] != nil && w.Reg.strLits[b.Name] != nil {
		return a != b
	}
	if a.IsLit() && b.IsLit() {
		return a.I.Cmp(b.I) != 0
	}
	return false
}

func (w *World) MapHas(mv string, content, k *Term) *Term {
	for content.K == KApp && content.Name == "put:"+mv {
		if content.Args[1] == k {
			return TTrue
		}
		if w.keysDistinct(content.Args[1], k) {
			content = content.Args[0]
			continue
		}
		break
	}
	if content.K == KApp && content.Name == "empty:"+mv {
		return TFalse
	}
	return w.Reg.Apply("has:"+mv, content, k)
}

func (w *World) MapGet(mv string, content, k *Term) *Term {
	for content.K == KApp && content.Name == "put:"+mv {
		if content.Args[1] == k {
			return content.Args[2]
		}
		if w.keysDistinct(content.Args[1], k) {
			content = content.Args[0]
			continue
		}
		break
	}
	return w.Reg.Apply("get:"+mv, content, k)
}

// ---- interfaces ----

func (w *World) boxName(t types.Type) string {
	t = types.Unalias(t)
	switch u := t.(type) {
	case *types.Named:
		return w.QName(u.Obj())
	case *types.Pointer:
		return "*" + w.boxName(u.Elem())
	case *types.Basic:
		return u.Name()
	case *types.Slice:
		return "[]" + w.boxName(u.Elem())
	case *types.Struct:
		return w.structName(t)
	}
	return mangleSort(types.TypeString(t, nil))
}

// NoteBoxed records a concrete type that may be stored in an interface value.
func (w *World) NoteBoxed(t types.Type) {
	t = types.Unalias(t)
	if _, ok := t.Underlying().(*types.Interface); ok {
		return
	}
	if _, ok := t.(*types.Tuple); ok {
		return
	}
	n := w.boxName(t)
	if w.boxedSeen[n] {
		return
	}
	if w.ifaceDone {
		w.Warn = append(w.Warn, "type boxed after Iface was finalised: "+n)
		return
	}
	w.boxedSeen[n] = true
	w.boxed = append(w.boxed, t)
}

func (w *World) ifaceSort() string {
	if _, ok := w.Reg.dts[SIface]; ok {
		return SIface
	}
	w.ifaceDone = true
	dt := &Datatype{Name: SIface}
	w.Reg.dts[SIface] = dt // break recursion
	ctors := []DTCtor{{Name: "inil"}, {Name: "iopaque", Fields: []DTField{{"itid", SInt}, {"ioid", SInt}}}}
	sort.Slice(w.boxed, func(i, j int) bool { return w.boxName(w.boxed[i]) < w.boxName(w.boxed[j]) })
	for _, t := range w.boxed {
		n := w.boxName(t)
		ctors = append(ctors, DTCtor{Name: "box:" + n, Fields: []DTField{{"unbox:" + n, w.SortOf(t)}}})
	}
	dt.Ctors = ctors
	delete(w.Reg.dts, SIface)
	w.Reg.DeclareDatatype(dt)
	return SIface
}

func (w *World) IsBoxed(t types.Type) bool { return w.boxedSeen[w.boxName(types.Unalias(t))] }

func (w *World) Box(t types.Type, v *Term) *Term {
	w.ifaceSort()
	n := w.boxName(t)
	if !w.boxedSeen[n] {
		// unknown dynamic type: opaque value
		return w.Reg.Apply("iopaque", IntT(int64(hashString(n))), w.Reg.Fresh("obj", SInt))
	}
	return w.Reg.Apply("box:"+n, v)
}

func hashString(s string) uint32 {
	var h uint32 = 2166136261
	for i := 0; i < len(s); i++ {
		h = (h ^ uint32(s[i])) * 16777619
	}
	return h & 0x7fffffff
}

func (w *World) INil() *Term { w.ifaceSort(); return w.Reg.Apply("inil") }

// scanBoxed walks every function of the repo packages and records MakeInterface / TypeAssert types.
func (w *World) scanBoxed() {
	for _, sp := range w.RepoPkgs {
		for _, fn := range allFuncs(sp) {
			for _, b := range fn.Blocks {
				for _, in := range b.Instrs {
					switch x := in.(type) {
					case *ssa.MakeInterface:
						w.NoteBoxed(x.X.Type())
					case *ssa.TypeAssert:
						w.NoteBoxed(x.AssertedType)
					}
				}
			}
		}
	}
}

func allFuncs(p *ssa.Package) []*ssa.Function {
	var out []*ssa.Function
	seen := map[*ssa.Function]bool{}
	var add func(f *ssa.Function)
	add = func(f *ssa.Function) {
		if f == nil || seen[f] {
			return
		}
		seen[f] = true
		if f.Synthetic != "" && f.Parent() == nil {
			return // wrappers / thunks: the declared method is analysed instead
		}
		out = append(out, f)
		for _, a := range f.AnonFuncs {
			add(a)
		}
	}
	for _, m := range p.Members {
		switch m := m.(type) {
		case *ssa.Function:
			add(m)
		case *ssa.Type:
			for _, t := range []types.Type{m.Type(), types.NewPointer(m.Type())} {
				ms := p.Prog.MethodSets.MethodSet(t)
				for i := 0; i < ms.Len(); i++ {
					add(p.Prog.MethodValue(ms.At(i)))
				}
			}
		}
	}
	sort.Slice(out, func(i, j int) bool { return out[i].Pos() < out[j].Pos() })
	return out
}

// ---------------------------------------------------------------------------
// constants and integer ranges
// ---------------------------------------------------------------------------

func (w *World) ConstTerm(t types.Type, v constant.Value) *Term {
	if v == nil {
		return w.ZeroTerm(t)
	}
	switch v.Kind() {
	case constant.Bool:
		return BoolT(constant.BoolVal(v))
	case constant.String:
		return w.Reg.StrLit(constant.StringVal(v))
	case constant.Int:
		bi, ok := new(big.Int).SetString(v.ExactString(), 10)
		if !ok {
			panic("bad int const " + v.ExactString())
		}
		return BigT(bi)
	case constant.Float:
		// durations such as time.Hour*24*7 are ints; anything else is unsupported
		if i, ok := constant.Int64Val(constant.ToInt(v)); ok {
			return IntT(i)
		}
	}
	panic("unsupported constant " + v.String())
}

func (w *World) ZeroTerm(t types.Type) *Term {
	t = types.Unalias(t)
	switch u := t.Underlying().(type) {
	case *types.Basic:
		switch {
		case u.Info()&types.IsBoolean != 0:
			return TFalse
		case u.Info()&types.IsString != 0:
			return w.Reg.StrLit("")
		}
		return IntT(0)
	case *types.Pointer, *types.Map, *types.Signature, *types.Chan:
		return IntT(0)
	case *types.Interface:
		return w.INil()
	case *types.Slice:
		return w.SlNil(w.SortOf(t))
	case *types.Struct:
		var fs []*Term
		for _, f := range w.StructFields(t) {
			fs = append(fs, w.ZeroTerm(f.Type))
		}
		return w.MkStruct(t, fs)
	case *types.Array:
		// constant array of zero values: a fresh array constrained pointwise would need a quantifier;
		// use a named constant array symbol per element sort with an axiom.
		es := w.SortOf(u.Elem())
		name := "zeroarr:" + mangleSort(es)
		as := ArraySort(SInt, es)
		w.Reg.DeclareFunc(name, nil, as)
		i := Var("i", SInt)
		w.Reg.AddAxiom(name, []string{name}, Forall([]*Term{i}, Eq(Select(w.Reg.Apply(name), i), w.ZeroTerm(u.Elem())), []*Term{Select(w.Reg.Apply(name), i)}))
		return w.Reg.Apply(name)
	}
	panic(fmt.Sprintf("ZeroTerm: unsupported %s", t))
}

func intRange(t types.Type) (lo, hi *big.Int, ok bool) {
	b, isB := types.Unalias(t).Underlying().(*types.Basic)
	if !isB || b.Info()&types.IsInteger == 0 {
		return nil, nil, false
	}
	pow := func(n uint) *big.Int { return new(big.Int).Lsh(big.NewInt(1), n) }
	switch b.Kind() {
	case types.Int, types.Int64:
		return new(big.Int).Neg(pow(63)), new(big.Int).Sub(pow(63), big.NewInt(1)), true
	case types.Int32:
		return new(big.Int).Neg(pow(31)), new(big.Int).Sub(pow(31), big.NewInt(1)), true
	case types.Int16:
		return new(big.Int).Neg(pow(15)), new(big.Int).Sub(pow(15), big.NewInt(1)), true
	case types.Int8:
		return new(big.Int).Neg(pow(7)), new(big.Int).Sub(pow(7), big.NewInt(1)), true
	case types.Uint, types.Uint64, types.Uintptr:
		return big.NewInt(0), new(big.Int).Sub(pow(64), big.NewInt(1)), true
	case types.Uint32:
		return big.NewInt(0), new(big.Int).Sub(pow(32), big.NewInt(1)), true
	case types.Uint16:
		return big.NewInt(0), new(big.Int).Sub(pow(16), big.NewInt(1)), true
	case types.Uint8:
		return big.NewInt(0), big.NewInt(255), true
	}
	return nil, nil, false
}

// RangeFact returns lo <= t <= hi for a sized integer type (nil if not an integer type).
func RangeFact(t types.Type, x *Term) *Term {
	lo, hi, ok := intRange(t)
	if !ok || x.IsLit() {
		return nil
	}
	return And(Le(BigT(lo), x), Le(x, BigT(hi)))
}

// ---------------------------------------------------------------------------
// spec loading
// ---------------------------------------------------------------------------

func (w *World) LoadSpecs(extDir string) error {
	var files []string
	for _, sub := range []string{"", "types", "uuid"} {
		p := filepath.Join(w.RepoDir, sub, "contracts_verif.go")
		if _, err := os.Stat(p); err == nil {
			files = append(files, p)
		}
	}
	ext, _ := filepath.Glob(filepath.Join(extDir, "*.spec"))
	sort.Strings(ext)
	files = append(files, ext...)
	for _, f := range files {
		sf, err := ParseSpecFile(f)
		if err != nil {
			return err
		}
		w.Specs = append(w.Specs, sf)
		// package context: repo contract files belong to their package; external specs resolve
		// unqualified names in the root package.
		pkgPath := repoModule
		rel, _ := filepath.Rel(w.RepoDir, f)
		if strings.HasPrefix(rel, "types/") {
			pkgPath = repoModule + "/types"
		} else if strings.HasPrefix(rel, "uuid/") {
			pkgPath = repoModule + "/uuid"
		}
		w.specPkg[sf] = w.AllPkgs[pkgPath]
		if strings.HasSuffix(f, ".spec") {
			for _, fs := range sf.Funcs {
				fs.External = true
			}
		}
	}
	// ghost fields first (they change struct sorts)
	for _, sf := range w.Specs {
		for _, g := range sf.GhostFields {
			ot, err := w.ResolveType(sf, g.Owner)
			if err != nil {
				return fmt.Errorf("%s: %v", g.Pos, err)
			}
			gt, err := w.ResolveType(sf, g.Type)
			if err != nil {
				return fmt.Errorf("%s: %v", g.Pos, err)
			}
			n := w.structName(ot)
			for _, ex := range w.ghost[n] {
				if ex.Name == g.Name {
					return fmt.Errorf("%s: duplicate ghost field %s.%s", g.Pos, n, g.Name)
				}
			}
			w.ghost[n] = append(w.ghost[n], ghostFieldInfo{g.Name, gt})
		}
	}
	w.Guards = map[string]*guardInfo{}
	w.PointeeGuards = map[string]*pointeeGuard{}
	for _, sf := range w.Specs {
		for _, g := range sf.Guards {
			if g.Pointee != nil {
				pt, err := w.ResolveType(sf, g.Pointee)
				if err != nil {
					return fmt.Errorf("%s: %v", g.Pos, err)
				}
				ot, err := w.ResolveType(sf, g.Owner)
				if err != nil {
					return fmt.Errorf("%s: %v", g.Pos, err)
				}
				mi := -1
				for i, f := range w.StructFields(ot) {
					if f.Name == g.Mutex {
						mi = i
					}
				}
				if mi < 0 {
					return fmt.Errorf("%s: guarded pointee: unknown mutex field", g.Pos)
				}
				w.PointeeGuards[w.heapKey(pt)] = &pointeeGuard{Owner: ot, MutexField: mi, Tags: g.Tags, Name: g.Pointee.String()}
				continue
			}
			ot, err := w.ResolveType(sf, g.Owner)
			if err != nil {
				return fmt.Errorf("%s: %v", g.Pos, err)
			}
			fi, mi := -1, -1
			for i, f := range w.StructFields(ot) {
				if f.Name == g.Field {
					fi = i
				}
				if f.Name == g.Mutex {
					mi = i
				}
			}
			if fi < 0 || mi < 0 {
				return fmt.Errorf("%s: guarded: unknown field", g.Pos)
			}
			w.Guards[fmt.Sprintf("%s.%d", w.structName(ot), fi)] = &guardInfo{MutexField: mi, Tags: g.Tags, Name: g.Field}
		}
	}
	for _, sf := range w.Specs {
		for _, p := range sf.Pures {
			if _, dup := w.Pures[p.Name]; dup {
				return fmt.Errorf("%s: duplicate pure func %s", p.Pos, p.Name)
			}
			w.Pures[p.Name] = p
			pureHome[p] = sf
		}
		for _, g := range sf.GhostFuncs {
			if _, dup := w.GhostFuncs[g.Name]; dup {
				return fmt.Errorf("%s: duplicate ghost func %s", g.Pos, g.Name)
			}
			w.GhostFuncs[g.Name] = g
			ghostHome[g] = sf
		}
		for _, fs := range sf.Funcs {
			key, err := w.specFuncKey(sf, fs)
			if err != nil {
				return fmt.Errorf("%s: %v", fs.Pos, err)
			}
			if _, dup := w.FuncSpecs[key]; dup {
				return fmt.Errorf("%s: duplicate contract for %s", fs.Pos, key)
			}
			w.FuncSpecs[key] = fs
			funcHome[fs] = sf
			if fs.Iterator {
				iterSpecKeys[key] = true
			}
		}
	}
	return nil
}

var pureHome = map[*PureFunc]*SpecFile{}
var ghostHome = map[*GhostFunc]*SpecFile{}
var funcHome = map[*FuncSpec]*SpecFile{}

// pkgByName resolves a package qualifier used in a spec file: by import name of any file in the
// spec's package, then by package name among all loaded packages.
func (w *World) pkgByName(sf *SpecFile, name string) *types.Package {
	home := w.specPkg[sf]
	if home != nil {
		if name == home.Name() {
			return home
		}
		for _, p := range w.Pkgs {
			if p.Types == home {
				for _, f := range p.Syntax {
					for _, im := range f.Imports {
						path := strings.Trim(im.Path.Value, `"`)
						ip := w.AllPkgs[path]
						if ip == nil {
							continue
						}
						local := ip.Name()
						if im.Name != nil {
							local = im.Name.Name
						}
						if local == name {
							return ip
						}
					}
				}
			}
		}
	}
	// well-known aliases used by the repo
	aliases := map[string]string{"dsig": "github.com/russellhaering/goxmldsig", "dsigtypes": "github.com/russellhaering/goxmldsig/types",
		"rtvalidator": "github.com/mattermost/xml-roundtrip-validator", "saml2": repoModule, "types": repoModule + "/types",
		"uuid": repoModule + "/uuid", "template": "html/template", "rand": "crypto/rand"}
	if p, ok := aliases[name]; ok {
		if ip := w.AllPkgs[p]; ip != nil {
			return ip
		}
	}
	var cands []*types.Package
	for _, p := range w.AllPkgs {
		if p.Name() == name {
			cands = append(cands, p)
		}
	}
	if len(cands) == 1 {
		return cands[0]
	}
	// prefer standard library (no dot in first path element)
	for _, p := range cands {
		if !strings.Contains(strings.SplitN(p.Path(), "/", 2)[0], ".") {
			return p
		}
	}
	return nil
}

var builtinTypes = map[string]types.Type{
	"bool": types.Typ[types.Bool], "int": types.Typ[types.Int], "int64": types.Typ[types.Int64], "int32": types.Typ[types.Int32],
	"uint8": types.Typ[types.Uint8], "byte": types.Typ[types.Uint8], "uint32": types.Typ[types.Uint32], "uint64": types.Typ[types.Uint64],
	"uint": types.Typ[types.Uint], "string": types.Typ[types.String], "error": types.Universe.Lookup("error").Type(),
	"any": types.Universe.Lookup("any").Type(),
}

func (w *World) ResolveType(sf *SpecFile, st *SType) (types.Type, error) {
	switch st.Kind {
	case "ptr":
		e, err := w.ResolveType(sf, st.Elem)
		if err != nil {
			return nil, err
		}
		return types.NewPointer(e), nil
	case "slice":
		e, err := w.ResolveType(sf, st.Elem)
		if err != nil {
			return nil, err
		}
		return types.NewSlice(e), nil
	case "array":
		e, err := w.ResolveType(sf, st.Elem)
		if err != nil {
			return nil, err
		}
		return types.NewArray(e, int64(st.Len)), nil
	case "map":
		k, err := w.ResolveType(sf, st.Key)
		if err != nil {
			return nil, err
		}
		e, err := w.ResolveType(sf, st.Elem)
		if err != nil {
			return nil, err
		}
		return types.NewMap(k, e), nil
	case "func":
		return types.NewSignatureType(nil, nil, nil, nil, nil, false), nil
	case "name":
		if st.Pkg == "" {
			if t, ok := builtinTypes[st.Name]; ok {
				return t, nil
			}
			home := w.specPkg[sf]
			if home != nil {
				if o := home.Scope().Lookup(st.Name); o != nil {
					if tn, ok := o.(*types.TypeName); ok {
						return tn.Type(), nil
					}
				}
			}
			return nil, fmt.Errorf("unknown type %s", st.Name)
		}
		p := w.pkgByName(sf, st.Pkg)
		if p == nil {
			return nil, fmt.Errorf("unknown package %s in type %s", st.Pkg, st)
		}
		o := p.Scope().Lookup(st.Name)
		tn, ok := o.(*types.TypeName)
		if !ok {
			return nil, fmt.Errorf("unknown type %s", st)
		}
		return tn.Type(), nil
	}
	return nil, fmt.Errorf("cannot resolve type %s", st)
}

// funcKey gives the canonical key of an ssa function or a types.Func:
//
//	pkgpath.Name   or   (pkgpath.Recv).Name / (*pkgpath.Recv).Name ; interface methods: (pkgpath.Iface).Name
func funcKeyOf(f *types.Func) string {
	sig := f.Type().(*types.Signature)
	if r := sig.Recv(); r != nil {
		rt := types.Unalias(r.Type())
		ptr := ""
		if p, ok := rt.(*types.Pointer); ok {
			rt = types.Unalias(p.Elem())
			ptr = "*"
		}
		if n, ok := rt.(*types.Named); ok {
			pp := ""
			if n.Obj().Pkg() != nil {
				pp = n.Obj().Pkg().Path() + "."
			}
			if _, isI := n.Underlying().(*types.Interface); isI {
				ptr = ""
			}
			return "(" + ptr + pp + n.Obj().Name() + ")." + f.Name()
		}
		return "(" + rt.String() + ")." + f.Name()
	}
	if f.Pkg() != nil {
		return f.Pkg().Path() + "." + f.Name()
	}
	return f.Name()
}

func (w *World) specFuncKey(sf *SpecFile, fs *FuncSpec) (string, error) {
	if fs.Recv != nil {
		rt, err := w.ResolveType(sf, fs.Recv.Type)
		if err != nil {
			return "", err
		}
		ptr := ""
		if p, ok := rt.(*types.Pointer); ok {
			rt = p.Elem()
			ptr = "*"
		}
		n, ok := types.Unalias(rt).(*types.Named)
		if !ok {
			return "", fmt.Errorf("receiver of %s is not a named type", fs.Name)
		}
		if _, isI := n.Underlying().(*types.Interface); isI {
			ptr = ""
		}
		pp := ""
		if n.Obj().Pkg() != nil {
			pp = n.Obj().Pkg().Path() + "."
		}
		return "(" + ptr + pp + n.Obj().Name() + ")." + fs.Name, nil
	}
	if fs.Pkg != "" {
		p := w.pkgByName(sf, fs.Pkg)
		if p == nil {
			return "", fmt.Errorf("unknown package %s", fs.Pkg)
		}
		return p.Path() + "." + fs.Name, nil
	}
	home := w.specPkg[sf]
	return home.Path() + "." + fs.Name, nil
}

// LookupFunc finds the ssa function for a canonical key inside the repo packages.
func (w *World) LookupFunc(key string) *ssa.Function {
	for _, sp := range w.RepoPkgs {
		for _, fn := range allFuncs(sp) {
			if fn.Object() == nil {
				continue
			}
			if f, ok := fn.Object().(*types.Func); ok && funcKeyOf(f) == key {
				return fn
			}
		}
	}
	return nil
}

// lenBound: the address-space bound assumed for a length the program takes at run time.
var lenBound = BigT(new(big.Int).SetUint64(1 << 56))
