package main

import (
	"encoding/json"
	"flag"
	"fmt"
	"go/token"
	"os"
	"path/filepath"
	"sort"
	"strconv"
	"strings"
	"sync"
	"time"

	"golang.org/x/tools/go/ssa"
)

func main() {
	if len(os.Args) < 2 {
		fmt.Fprintln(os.Stderr, "usage: govc check <property> [flags] | govc dump <func-key> | govc list")
		os.Exit(2)
	}
	switch os.Args[1] {
	case "check":
		os.Exit(cmdCheck(os.Args[2:]))
	case "list":
		os.Exit(cmdList(os.Args[2:]))
	case "locals":
		os.Exit(cmdLocals(os.Args[2:]))
	case "axiom-model":
		os.Exit(cmdAxiomModel(os.Args[2:]))
	default:
		fmt.Fprintln(os.Stderr, "unknown command", os.Args[1])
		os.Exit(2)
	}
}

type Options struct {
	repo     string
	verif    string
	tier     string
	only     string
	verbose  bool
	keep     bool
	timeoutS int
	extspec  string
}

func parseOpts(args []string) (*Options, []string) {
	fs := flag.NewFlagSet("govc", flag.ExitOnError)
	o := &Options{}
	fs.StringVar(&o.repo, "repo", "/repo", "repository working tree")
	fs.StringVar(&o.verif, "verif", "/verif", "verification directory")
	fs.StringVar(&o.tier, "tier", envOr("VERIF_TIER", "quick"), "quick|thorough")
	fs.StringVar(&o.extspec, "extspec", "", "directory of external .spec files (default <verif>/contracts/external)")
	fs.StringVar(&o.only, "only", "", "restrict to functions whose key contains this substring")
	fs.BoolVar(&o.verbose, "v", false, "verbose")
	fs.BoolVar(&o.keep, "keep", false, "keep all SMT scripts")
	fs.IntVar(&o.timeoutS, "timeout", 0, "per-obligation solver timeout (s)")
	var pos []string
	// allow flags after positional args
	for len(args) > 0 {
		fs.Parse(args)
		if fs.NArg() == 0 {
			break
		}
		pos = append(pos, fs.Arg(0))
		args = fs.Args()[1:]
	}
	if o.extspec == "" {
		o.extspec = filepath.Join(o.verif, "contracts", "external")
	}
	if o.tier != "thorough" {
		o.tier = "quick"
	}
	if o.timeoutS == 0 {
		if o.tier == "thorough" {
			o.timeoutS = 60
		} else {
			o.timeoutS = 10
		}
	}
	return o, pos
}

func envOr(k, d string) string {
	if v := os.Getenv(k); v != "" {
		return v
	}
	return d
}

func loadAll(o *Options) (*World, error) {
	w, err := LoadWorld(o.repo)
	if err != nil {
		return nil, err
	}
	w.scanBoxed()
	// types mentioned in contracts may be boxed too: parse specs once to collect them before Iface is fixed
	if err := w.LoadSpecs(o.extspec); err != nil {
		return nil, err
	}
	w.noteSpecTypes()
	loadLocalHints(o.extspec)
	w.rebindRenamedHelpers()
	registerTemplateAxioms(w)
	return w, nil
}

// noteSpecTypes registers every named struct / pointer type mentioned in `is T`, T{...} or T(x) in specs.
func (w *World) noteSpecTypes() {
	var walk func(sf *SpecFile, e SExpr)
	note := func(sf *SpecFile, st *SType) {
		if st == nil {
			return
		}
		if t, err := w.ResolveType(sf, st); err == nil {
			w.NoteBoxed(t)
		}
	}
	walk = func(sf *SpecFile, e SExpr) {
		switch n := e.(type) {
		case *SBinary:
			walk(sf, n.X)
			walk(sf, n.Y)
		case *SUnary:
			walk(sf, n.X)
		case *SCall:
			if ty := exprAsType(n.Fun); ty != nil {
				note(sf, ty)
			}
			for _, a := range n.Args {
				walk(sf, a)
			}
		case *SSelect:
			walk(sf, n.X)
		case *SIndex:
			walk(sf, n.X)
			walk(sf, n.I)
		case *SQuant:
			walk(sf, n.Body)
		case *SCond:
			walk(sf, n.C)
			walk(sf, n.A)
			walk(sf, n.B)
		case *SComposite:
			note(sf, n.Type)
			for _, f := range n.Fields {
				walk(sf, f.Val)
			}
		case *SIs:
			note(sf, n.Type)
			walk(sf, n.X)
		case *SLet:
			walk(sf, n.Val)
			walk(sf, n.Body)
		case *SAssert:
			note(sf, n.Type)
			walk(sf, n.X)
		}
	}
	for _, sf := range w.Specs {
		for _, p := range sf.Pures {
			walk(sf, p.Body)
		}
		for _, a := range sf.Axioms {
			walk(sf, a.Expr)
		}
		for _, f := range sf.Funcs {
			var cs []*Clause
			cs = append(cs, f.Requires...)
			cs = append(cs, f.Ensures...)
			cs = append(cs, f.Panics...)
			cs = append(cs, f.Exits...)
			for _, l := range f.Loops {
				cs = append(cs, l.Invariants...)
			}
			for _, l := range f.Iters {
				cs = append(cs, l.Invariants...)
				cs = append(cs, l.Visits...)
			}
			for _, c := range cs {
				walk(sf, c.Expr)
			}
			for _, a := range f.Assigns {
				if a.Expr != nil {
					walk(sf, a.Expr)
				}
			}
			for _, fr := range f.Fresh {
				if fr.When != nil {
					walk(sf, fr.When)
				}
			}
		}
	}
}

func hasTag(tags []string, t string) bool {
	for _, x := range tags {
		if x == t {
			return true
		}
	}
	return false
}

func cmdList(args []string) int {
	o, _ := parseOpts(args)
	w, err := loadAll(o)
	if err != nil {
		fmt.Fprintln(os.Stderr, "load:", err)
		return 2
	}
	var keys []string
	for k := range w.FuncSpecs {
		keys = append(keys, k)
	}
	sort.Strings(keys)
	for _, k := range keys {
		fs := w.FuncSpecs[k]
		kind := "repo"
		if fs.External {
			kind = "ext "
		}
		fmt.Printf("%s %-70s tags=%v\n", kind, shortFn(k), specTags(fs))
	}
	return 0
}

var runNotes = map[string]bool{}
var conformance *confResult
var axiomModel = "not run in the quick tier (run by the thorough tier and by `govc axiom-model`)"

// exportedKey: is the function or method named by a contract key part of the package API?
func exportedKey(k string) bool {
	name := k
	if i := strings.LastIndex(name, "."); i >= 0 {
		name = name[i+1:]
	}
	return name != "" && token.IsExported(name)
}

type funcReport struct {
	Key         string
	Paths       int
	Obligations int
	Inlined     []string
	Assumed     []string
	Havocked    []string
	Err         string
}

func cmdCheck(args []string) int {
	t0 := time.Now()
	o, pos := parseOpts(args)
	if len(pos) != 1 {
		fmt.Fprintln(os.Stderr, "usage: govc check <property-id>")
		return 2
	}
	prop := pos[0]
	seed, _ := strconv.Atoi(envOr("VERIF_SEED", "0"))
	w, err := loadAll(o)
	if err != nil {
		fmt.Fprintln(os.Stderr, "infrastructure failure (no verdict):", err)
		return 2
	}
	tLoad := time.Since(t0).Seconds()

	var all []*Obligation
	var reports []*funcReport
	assumed := map[string]bool{}
	havocked := map[string]bool{}
	inlined := map[string]bool{}
	var keys []string
	for k, fs := range w.FuncSpecs {
		if fs.External || fs.Trusted {
			continue
		}
		if !hasTag(specTags(fs), prop) {
			continue
		}
		if o.only != "" && !strings.Contains(k, o.only) {
			continue
		}
		keys = append(keys, k)
	}
	sort.Strings(keys)
	var failClosed []*Obligation
	for _, k := range keys {
		fs := w.FuncSpecs[k]
		rep := &funcReport{Key: shortFn(k)}
		reports = append(reports, rep)
		fn := w.LookupFunc(k)
		if fn == nil && !exportedKey(k) {
			// an unexported helper that no longer exists (inlined into its callers, renamed): nothing calls its
			// contract, its callers are verified against whatever code replaced it
			runNotes["contract of unexported helper "+shortFn(k)+" binds to no function of this tree (removed, renamed or inlined): not checked, callers are verified against the code that replaced it"] = true
			rep.Err = "unbound (unexported helper)"
			continue
		}
		if fn == nil {
			ob := &Obligation{Name: "bind." + shortFn(k), Func: shortFn(k), Kind: "bind", Status: "failed", Tags: []string{prop},
				Note: "contract does not bind to any function of the current tree (renamed or deleted?)", Expect: "unsat"}
			failClosed = append(failClosed, ob)
			rep.Err = ob.Note
			continue
		}
		ex := NewExec(w, fn, fs)
		ex.prop = prop
		obls, err := runExec(ex)
		rep.Paths = ex.paths + 1
		for n := range ex.inlined {
			rep.Inlined = append(rep.Inlined, n)
			inlined[n] = true
		}
		for n := range ex.assumed {
			rep.Assumed = append(rep.Assumed, n)
			assumed[n] = true
		}
		for n := range ex.havocked {
			rep.Havocked = append(rep.Havocked, n)
			havocked[n] = true
		}
		for n := range ex.rebound {
			runNotes["renamed local re-bound through its recorded fingerprint: "+n] = true
		}
		sort.Strings(rep.Inlined)
		sort.Strings(rep.Assumed)
		sort.Strings(rep.Havocked)
		if err != nil {
			ob := &Obligation{Name: "subset." + shortFn(k), Func: shortFn(k), Kind: "subset", Status: "failed", Tags: []string{prop},
				Note: err.Error(), Expect: "unsat"}
			failClosed = append(failClosed, ob)
			rep.Err = err.Error()
			continue
		}
		for _, ob := range obls {
			if hasTag(ob.Tags, prop) {
				all = append(all, ob)
				rep.Obligations++
			}
		}
	}
	tGen := time.Since(t0).Seconds() - tLoad

	d := &Discharger{outDir: filepath.Join(o.verif, "out", "vc", prop), timeoutS: o.timeoutS, thorough: o.tier == "thorough"}
	os.RemoveAll(d.outDir)
	if o.tier == "thorough" {
		// consistency of the background theory: every base axiom must be valid in the reference model
		n, ok, det := runAxiomModel(w, d.outDir)
		axiomModel = fmt.Sprintf("%d/%d background axioms (slices, strings, maps) valid in the reference model (z3 5.1)", ok, n)
		if ok != n {
			fmt.Fprintln(os.Stderr, "infrastructure failure (no verdict): background axioms are not valid in the reference model:", det)
			return 2
		}
		conformance = runConformance(o, prop)
		if len(conformance.Failed) > 0 {
			fmt.Fprintf(os.Stderr, "ASSUMPTION-VIOLATED: conformance test(s) of assumed dependency contracts fail: %v\n%s\n", conformance.Failed, conformance.Output)
		}
	}
	all = pruneCovers(all)
	schema := schemaObligations(w, prop)
	d.Run(w, all, 16)
	if d.byBack == nil {
		d.byBack = map[string]int{}
	}
	d.byBack["eval"] += len(schema)
	all = append(all, schema...)
	all = append(all, failClosed...)

	if os.Getenv("GOVC_LIST") != "" {
		for _, ob := range all {
			fmt.Printf("OBL %-10s %-11s %s/%s %v\n", ob.Kind, ob.Status, ob.Func, ob.Name, ob.Tags)
		}
	}
	return report(o, w, prop, seed, all, reports, d, assumed, havocked, inlined, tLoad, tGen, t0)
}

func runExec(ex *Exec) (obls []*Obligation, err error) {
	defer func() {
		if r := recover(); r != nil {
			if os.Getenv("GOVC_PANIC") != "" {
				panic(r)
			}
			switch e := r.(type) {
			case specErr:
				err = fmt.Errorf("contract error: %s", e.msg)
			case subsetErr:
				err = e
			default:
				// an engine failure on this function is reported fail-closed, never as a pass
				err = fmt.Errorf("internal engine error: %v", r)
			}
		}
	}()
	return ex.Run()
}

func report(o *Options, w *World, prop string, seed int, all []*Obligation, reports []*funcReport, d *Discharger,
	assumed, havocked, inlined map[string]bool, tLoad, tGen float64, t0 time.Time) int {
	nProof, nDis, nCover, nCovered := 0, 0, 0, 0
	var failed, undecided, vacuous []*Obligation
	// a return site (or the precondition) is vacuous only if every path reaching it is infeasible
	siteOf := func(ob *Obligation) string { return ob.Func + "/" + strings.SplitN(ob.Name, "~", 2)[0] }
	siteCovered := map[string]bool{}
	siteUnknown := map[string]bool{}
	siteFirst := map[string]*Obligation{}
	var siteOrder []string
	for _, ob := range all {
		if ob.Expect != "sat" {
			continue
		}
		k := siteOf(ob)
		if siteFirst[k] == nil {
			siteFirst[k] = ob
			siteOrder = append(siteOrder, k)
		}
		switch ob.Status {
		case "covered":
			siteCovered[k] = true
		case "vacuous":
		case "split":
			vacuous = append(vacuous, ob) // fatal: the hypotheses are satisfiable for one solver and refuted by another
			siteUnknown[k] = true
		default:
			siteUnknown[k] = true
		}
	}
	// A return site that no feasible path reaches is dead code under the contracts (reported, not fatal);
	// an unsatisfiable precondition, or a function none of whose return sites is reachable, trips the guard.
	var unreachable []string
	funcCovered := map[string]bool{}
	funcSeen := map[string]*Obligation{}
	for _, k := range siteOrder {
		nCover++
		fo := siteFirst[k]
		isPre := strings.HasSuffix(k, "/cover.pre")
		if !isPre {
			if funcSeen[fo.Func] == nil {
				funcSeen[fo.Func] = fo
			}
		}
		if siteCovered[k] {
			nCovered++
			if !isPre {
				funcCovered[fo.Func] = true
			}
		} else if !siteUnknown[k] {
			if isPre {
				vacuous = append(vacuous, fo)
			} else {
				unreachable = append(unreachable, k)
			}
		} else if !isPre {
			funcCovered[fo.Func] = true // undecided cover: not evidence of vacuity
		}
	}
	for f, fo := range funcSeen {
		if !funcCovered[f] {
			vacuous = append(vacuous, fo)
		}
	}
	for _, ob := range all {
		if ob.Expect == "sat" {
			continue
		}
		nProof++
		switch ob.Status {
		case "discharged":
			nDis++
		case "failed":
			failed = append(failed, ob)
		default:
			undecided = append(undecided, ob)
		}
	}
	exit := 0
	replayDir := filepath.Join(o.verif, "out", "replays", prop)
	os.RemoveAll(replayDir)
	var violLines, knownLines []string
	// one violation per obligation (the same clause failing on several paths is one obligation): pick a
	// representative with a counterexample if there is one
	type group struct {
		base string
		rep  *Obligation
		all  []*Obligation
	}
	groups := map[string]*group{}
	var gorder []string
	for _, ob := range append(append([]*Obligation{}, failed...), undecided...) {
		base := ob.Func + "/" + strings.SplitN(ob.Name, "~", 2)[0]
		g := groups[base]
		if g == nil {
			g = &group{base: base, rep: ob}
			groups[base] = g
			gorder = append(gorder, base)
		}
		if g.rep.Status != "failed" && ob.Status == "failed" {
			g.rep = ob
		}
		g.all = append(g.all, ob)
	}
	// replays run in parallel (each is a `go test -overlay` on the real code); at most 8 per run
	replays := make([]map[string]interface{}, len(gorder))
	var rwg sync.WaitGroup
	sem := make(chan bool, 4)
	for i, base := range gorder {
		if i >= 4 {
			break
		}
		rwg.Add(1)
		go func(i int, ob *Obligation) {
			defer rwg.Done()
			sem <- true
			defer func() { <-sem }()
			defer func() {
				if r := recover(); r != nil {
					replays[i] = map[string]interface{}{"replayed_on_real_code": false, "replay_note": fmt.Sprintf("replay generator failed: %v", r)}
				}
			}()
			prep := func() *replayPrep {
				replayMu.Lock()
				defer replayMu.Unlock()
				return replayPrepare(o, w, ob)
			}()
			replays[i] = replayRun(o, prep)
		}(i, groups[base].rep)
	}
	rwg.Wait()
	known := loadKnownFindings(o, prop)
	for i, base := range gorder {
		g := groups[base]
		ob := g.rep
		if kf := matchKnown(known, base); kf != nil && knownCovers(o, w, kf, g.all) {
			// a listed genuine defect: reported, not an alarm (a different violation of the same property still is)
			knownLines = append(knownLines, fmt.Sprintf("KNOWN-FINDING: property=%s %s %s", prop, base, kf.What))
			continue
		}
		os.MkdirAll(replayDir, 0o755)
		safe := strings.NewReplacer("/", "_", " ", "_", "*", "", "(", "", ")", "", "#", "-", "@", "-").Replace(base)
		path := filepath.Join(replayDir, safe+".json")
		reason := "counterexample"
		if ob.Status != "failed" {
			reason = "undecided"
		}
		if ob.Kind == "bind" || ob.Kind == "subset" {
			reason = ob.Kind
		}
		var paths []map[string]interface{}
		for _, a := range g.all {
			paths = append(paths, map[string]interface{}{"name": a.Name, "status": a.Status, "path": a.Path, "note": a.Note})
		}
		rp := map[string]interface{}{"property": prop, "obligation": base, "kind": ob.Kind, "clause": ob.Clause,
			"position": ob.Pos, "path": ob.Path, "reason": reason, "backend": ob.Backend, "solver_output": ob.Model, "note": ob.Note,
			"replayed_on_real_code": false, "failing_paths": paths}
		suffix := " no-failing-input-found"
		if rr := replays[i]; rr != nil {
			for k, v := range rr {
				rp[k] = v
			}
			if rr["replayed_on_real_code"] == true && rr["reproduced"] == true {
				suffix = ""
			}
		}
		b, _ := json.MarshalIndent(rp, "", " ")
		os.WriteFile(path, b, 0o644)
		violLines = append(violLines, fmt.Sprintf("VIOLATION property=%s replay=%s obligation=%s status=%s paths=%d%s", prop, path, base, ob.Status, len(g.all), suffix))
		exit = 1
	}
	if len(vacuous) > 0 || nProof == 0 {
		exit = maxInt(exit, 2)
	}
	if conformance != nil && len(conformance.Failed) > 0 {
		exit = maxInt(exit, 2) // the proofs are relative to an assumption the installed dependency does not meet: no verdict
	}
	// evidence
	var samples []map[string]interface{}
	for i, ob := range all {
		if ob.Expect == "sat" || ob.Trivial {
			continue
		}
		if len(samples) >= 8 && ob.Status == "discharged" {
			continue
		}
		sz := 0
		if ob.Script != nil {
			sz = ob.Script.Size
		}
		samples = append(samples, map[string]interface{}{"obligation": ob.Func + "/" + ob.Name, "kind": ob.Kind, "status": ob.Status,
			"backend": ob.Backend, "smt_bytes": sz, "time_s": round3(ob.TimeS), "pos": ob.Pos, "clause": ob.Clause})
		_ = i
	}
	// the slowest proof obligations of this run (stability margin against the per-obligation timeout)
	var slow []*Obligation
	for _, ob := range all {
		if ob.Expect != "sat" && !ob.Trivial {
			slow = append(slow, ob)
		}
	}
	sort.SliceStable(slow, func(i, j int) bool { return slow[i].TimeS > slow[j].TimeS })
	var slowest []map[string]interface{}
	for i := 0; i < len(slow) && i < 5; i++ {
		slowest = append(slowest, map[string]interface{}{"obligation": slow[i].Func + "/" + slow[i].Name, "time_s": round3(slow[i].TimeS), "backend": slow[i].Backend})
	}
	var fuc, inl, asm, hav []string
	paths := 0
	for _, r := range reports {
		fuc = append(fuc, r.Key)
		paths += r.Paths
	}
	for k := range inlined {
		inl = append(inl, k)
	}
	for k := range assumed {
		asm = append(asm, k)
	}
	for k := range havocked {
		hav = append(hav, k)
	}
	sort.Strings(inl)
	sort.Strings(asm)
	sort.Strings(hav)
	conformance.relate(o, asm)
	scan := map[string]int{}
	for _, sf := range w.Specs {
		for k, v := range sf.Tokens {
			scan[k] += v
		}
	}
	assumptions := []string{
		"VC generator (govc) translates go/ssa naive form faithfully; go/packages+go/ssa front end; SMT solvers z3 5.1.0 / z3 4.8.12 / cvc5 1.0.3",
		"integers are mathematical with explicit range facts; overflow is an obligation where safety is claimed, otherwise arithmetic is assumed not to wrap",
		"slices are immutable sequences (no capacity/aliasing); strings are an uninterpreted sort with ==, concat, len",
		"termination is not proved; package-level variables are immutable after init",
	}
	for _, a := range asm {
		assumptions = append(assumptions, "assumed contract: "+a)
	}
	for _, h := range hav {
		assumptions = append(assumptions, "no contract (havoc of everything reachable from the arguments by type; everything when an interface or func is reachable): "+h)
	}
	var notes []string
	for n := range runNotes {
		notes = append(notes, n)
	}
	sort.Strings(notes)
	assumptions = append(assumptions, notes...)
	assumptions = append(assumptions, propertyNotCovered[prop]...)
	ev := map[string]interface{}{
		"property_id": prop, "tier": o.tier, "seed": seed, "level": "proof", "wall_s": round3(time.Since(t0).Seconds()),
		"violations":  len(failed) + len(undecided),
		"assumptions": assumptions,
		"coverage": map[string]interface{}{
			"obligations": nProof, "discharged": nDis,
			"checker_cmd":  fmt.Sprintf("/verif/bin/govc check %s --tier %s", prop, o.tier),
			"trusted_base": []string{"govc VC generator", "go/ssa (x/tools v0.29.0) naive form", "z3-new 5.1.0", "z3 4.8.12", "cvc5 1.0.3", "assumed dependency contracts in /verif/contracts/external"},
			"samples":      samples, "functions_under_contract": fuc, "inlined": inl, "by_backend": d.byBack,
			"solver_time_s": round3(d.solverS), "load_s": round3(tLoad), "vcgen_s": round3(tGen), "paths": paths,
			"assumed_contracts": asm, "uncontracted_callees": hav,
			"vacuity":             map[string]interface{}{"covers": nCover, "covered": nCovered, "vacuous": len(vacuous)},
			"solver_splits":       d.splits,
			"slowest_obligations": slowest, "timeout_s": d.timeoutS, "axiom_model": axiomModel, "assumed_contract_conformance_tests": conformance, "solver_answers": d.answers,
			"contract_token_scan": scan, "per_function": reports,
			"failed": names(failed), "undecided": names(undecided), "known_findings_reported": knownLines,
		},
	}
	os.MkdirAll(filepath.Join(o.verif, "evidence"), 0o755)
	b, _ := json.MarshalIndent(ev, "", " ")
	os.WriteFile(filepath.Join(o.verif, "evidence", prop+".json"), b, 0o644)

	fmt.Printf("property %s tier=%s: %d functions, %d paths, %d proof obligations, %d discharged, %d failed, %d undecided; covers %d/%d; load %.1fs gen %.1fs solver %.1fs wall %.1fs\n",
		prop, o.tier, len(reports), paths, nProof, nDis, len(failed), len(undecided), nCovered, nCover, tLoad, tGen, d.solverS, time.Since(t0).Seconds())
	if o.verbose {
		for _, r := range reports {
			fmt.Printf("  %-60s paths=%d obls=%d %s\n", r.Key, r.Paths, r.Obligations, r.Err)
		}
	}
	for _, ob := range vacuous {
		fmt.Printf("VACUITY GUARD TRIPPED: %s/%s is unsatisfiable (contradictory assumptions)\n", ob.Func, ob.Name)
	}
	if nProof == 0 {
		fmt.Println("VACUITY GUARD TRIPPED: no obligations generated")
	}
	for _, ob := range append(append([]*Obligation{}, failed...), undecided...) {
		fmt.Printf("  FAILED %s/%s [%s] %s %s %s\n", ob.Func, ob.Name, ob.Status, ob.Pos, ob.Clause, ob.Note)
	}
	for _, l := range knownLines {
		fmt.Println(l)
	}
	for _, l := range violLines {
		fmt.Println(l)
	}
	return exit
}

type knownFinding struct {
	Property   string `json:"property"`
	Obligation string `json:"obligation"` // Func/Name of the obligation (without the ~path suffix)
	Class      string `json:"class"`      // contract expression over the function's parameters: the failing inputs
	What       string `json:"what"`
}

// knownCovers: the finding covers the failure only if, outside its input class, the obligation discharges on
// every path (so a different violation of the same obligation is still reported).
func knownCovers(o *Options, w *World, kf *knownFinding, obs []*Obligation) bool {
	if strings.TrimSpace(kf.Class) == "" {
		return false // a finding must say which inputs fail
	}
	for _, ob := range obs {
		x := ob.ex
		if x == nil {
			return false
		}
		lx, err := lexLines("known_findings.json", []string{kf.Class}, []int{1})
		if err != nil {
			return false
		}
		e, err := (&eparser{lx}).parseExpr(0)
		if err != nil {
			return false
		}
		var cls *Term
		func() {
			defer func() {
				if r := recover(); r != nil {
					cls = nil
				}
			}()
			cls = x.evalBool(&EvalCtx{x: x, st: x.entry, old: x.entry, env: x.specEnv(nil), sf: funcHome[x.spec]}, e)
		}()
		if cls == nil {
			return false
		}
		asserts := append(append([]*Term{}, ob.PC...), Not(cls), Not(ob.Goal))
		sc := w.Reg.BuildScript(asserts, "")
		file := filepath.Join(o.verif, "out", "vc", "known-"+fmt.Sprintf("%d", time.Now().UnixNano()))
		os.MkdirAll(filepath.Dir(file), 0o755)
		r := runSolver(solvers[0], sc.Text, file, 10)
		os.Remove(file + "." + solvers[0].name + ".smt2")
		if r.status != "unsat" {
			return false
		}
	}
	return true
}

// loadKnownFindings reads /verif/known_findings.json (committed; never written at run time).
func loadKnownFindings(o *Options, prop string) []knownFinding {
	var doc struct {
		Known []knownFinding `json:"known"`
	}
	b, err := os.ReadFile(filepath.Join("/verif", "known_findings.json"))
	if err != nil {
		return nil
	}
	if json.Unmarshal(b, &doc) != nil {
		return nil
	}
	var out []knownFinding
	for _, k := range doc.Known {
		if k.Property == prop {
			out = append(out, k)
		}
	}
	return out
}

func matchKnown(ks []knownFinding, base string) *knownFinding {
	for i := range ks {
		if ks[i].Obligation == base {
			return &ks[i]
		}
	}
	return nil
}

func names(obs []*Obligation) []string {
	out := []string{}
	for _, o := range obs {
		out = append(out, o.Func+"/"+o.Name)
	}
	return out
}

func maxInt(a, b int) int {
	if a > b {
		return a
	}
	return b
}

func round3(f float64) float64 { return float64(int(f*1000+0.5)) / 1000 }

var propertyNotCovered = map[string][]string{}

var replayMu sync.Mutex

var _ = ssa.NaiveForm

// pruneCovers keeps cover.pre and, per return site, the two covers with the smallest path conditions.
func pruneCovers(all []*Obligation) []*Obligation {
	var out []*Obligation
	best := map[string][]*Obligation{}
	for _, ob := range all {
		if ob.Expect != "sat" {
			out = append(out, ob)
			continue
		}
		site := ob.Func + "/" + strings.SplitN(ob.Name, "~", 2)[0]
		best[site] = append(best[site], ob)
	}
	var sites []string
	for k := range best {
		sites = append(sites, k)
	}
	sort.Strings(sites)
	for _, k := range sites {
		cs := best[k]
		sort.SliceStable(cs, func(i, j int) bool { return len(cs[i].PC) < len(cs[j].PC) })
		if len(cs) > 4 {
			cs = cs[:4]
		}
		out = append(out, cs...)
	}
	return out
}
