package main

// schema.* obligations: facts about program constants, struct tags and callee identities that the
// dependency contracts are parameterised by (DESIGN.md §4.1). They are decided by evaluating go/types
// information of the current tree (back end "eval"), never by a solver, and are reported separately.

import (
	"fmt"
	"go/types"
	"reflect"
	"strings"
)

type schemaCheck struct {
	name string
	tags []string
	run  func(w *World) (ok bool, detail string)
}

func (w *World) lookupStruct(pkgPath, name string) (*types.Struct, error) {
	p := w.AllPkgs[pkgPath]
	if p == nil {
		return nil, fmt.Errorf("package %s not loaded", pkgPath)
	}
	o := p.Scope().Lookup(name)
	if o == nil {
		return nil, fmt.Errorf("type %s.%s not found", pkgPath, name)
	}
	st, ok := o.Type().Underlying().(*types.Struct)
	if !ok {
		return nil, fmt.Errorf("%s.%s is not a struct", pkgPath, name)
	}
	return st, nil
}

func xmlTag(st *types.Struct, field string) (string, types.Type, bool) {
	for i := 0; i < st.NumFields(); i++ {
		if st.Field(i).Name() == field {
			return reflect.StructTag(st.Tag(i)).Get("xml"), st.Field(i).Type(), true
		}
	}
	return "", nil, false
}

// expectedTags: the XML binding the SAML 2.0 schemas prescribe for the fields the properties talk about
// (written from the schema, not from the code): struct -> field -> xml tag.
var expectedTags = map[string]map[string]string{
	repoModule + "/types.Response": {"XMLName": "urn:oasis:names:tc:SAML:2.0:protocol Response", "ID": "ID,attr", "InResponseTo": "InResponseTo,attr",
		"Destination": "Destination,attr", "Version": "Version,attr", "IssueInstant": "IssueInstant,attr", "Status": "Status", "Issuer": "Issuer",
		"Assertions": "Assertion", "EncryptedAssertions": "EncryptedAssertion", "SignatureValidated": "-"},
	repoModule + "/types.LogoutResponse": {"XMLName": "urn:oasis:names:tc:SAML:2.0:protocol LogoutResponse", "ID": "ID,attr", "InResponseTo": "InResponseTo,attr",
		"Destination": "Destination,attr", "Version": "Version,attr", "Status": "Status", "Issuer": "Issuer", "SignatureValidated": "-"},
	repoModule + ".LogoutRequest": {"XMLName": "urn:oasis:names:tc:SAML:2.0:protocol LogoutRequest", "ID": "ID,attr", "Version": "Version,attr",
		"Destination": "Destination,attr", "Issuer": "Issuer", "NameID": "NameID", "SignatureValidated": "-"},
	repoModule + "/types.Assertion": {"XMLName": "urn:oasis:names:tc:SAML:2.0:assertion Assertion", "Version": "Version,attr", "ID": "ID,attr",
		"IssueInstant": "IssueInstant,attr", "Issuer": "Issuer", "Subject": "Subject", "Conditions": "Conditions",
		"AttributeStatement": "AttributeStatement", "AuthnStatement": "AuthnStatement", "SignatureValidated": "-"},
	repoModule + "/types.Status":       {"XMLName": "urn:oasis:names:tc:SAML:2.0:protocol Status", "StatusCode": "StatusCode"},
	repoModule + "/types.StatusCode":   {"XMLName": "urn:oasis:names:tc:SAML:2.0:protocol StatusCode", "Value": "Value,attr"},
	repoModule + "/types.Issuer":       {"XMLName": "urn:oasis:names:tc:SAML:2.0:assertion Issuer", "Value": ",chardata"},
	repoModule + "/types.Subject":      {"XMLName": "urn:oasis:names:tc:SAML:2.0:assertion Subject", "NameID": "NameID", "SubjectConfirmation": "SubjectConfirmation"},
	repoModule + "/types.NameID":       {"XMLName": "urn:oasis:names:tc:SAML:2.0:assertion NameID", "Value": ",chardata"},
	repoModule + "/types.SubjectConfirmation": {"XMLName": "urn:oasis:names:tc:SAML:2.0:assertion SubjectConfirmation", "Method": "Method,attr",
		"SubjectConfirmationData": "SubjectConfirmationData"},
	repoModule + "/types.SubjectConfirmationData": {"XMLName": "urn:oasis:names:tc:SAML:2.0:assertion SubjectConfirmationData",
		"NotOnOrAfter": "NotOnOrAfter,attr", "Recipient": "Recipient,attr", "InResponseTo": "InResponseTo,attr"},
	repoModule + "/types.Conditions": {"XMLName": "urn:oasis:names:tc:SAML:2.0:assertion Conditions", "NotBefore": "NotBefore,attr",
		"NotOnOrAfter": "NotOnOrAfter,attr", "AudienceRestrictions": "AudienceRestriction", "OneTimeUse": "OneTimeUse", "ProxyRestriction": "ProxyRestriction"},
	repoModule + "/types.AudienceRestriction": {"XMLName": "urn:oasis:names:tc:SAML:2.0:assertion AudienceRestriction", "Audiences": "Audience"},
	repoModule + "/types.Audience":            {"XMLName": "urn:oasis:names:tc:SAML:2.0:assertion Audience", "Value": ",chardata"},
	repoModule + "/types.OneTimeUse":          {"XMLName": "urn:oasis:names:tc:SAML:2.0:assertion OneTimeUse"},
	repoModule + "/types.ProxyRestriction":    {"XMLName": "urn:oasis:names:tc:SAML:2.0:assertion ProxyRestriction", "Count": "Count,attr", "Audience": "Audience"},
	repoModule + "/types.AttributeStatement":  {"XMLName": "urn:oasis:names:tc:SAML:2.0:assertion AttributeStatement", "Attributes": "Attribute"},
	repoModule + "/types.Attribute": {"XMLName": "urn:oasis:names:tc:SAML:2.0:assertion Attribute", "FriendlyName": "FriendlyName,attr",
		"Name": "Name,attr", "NameFormat": "NameFormat,attr", "Values": "AttributeValue"},
	repoModule + "/types.AttributeValue": {"XMLName": "urn:oasis:names:tc:SAML:2.0:assertion AttributeValue", "Value": ",chardata"},
	repoModule + "/types.AuthnStatement": {"XMLName": "urn:oasis:names:tc:SAML:2.0:assertion AuthnStatement", "SessionIndex": "SessionIndex,attr,omitempty",
		"AuthnInstant": "AuthnInstant,attr,omitempty", "SessionNotOnOrAfter": "SessionNotOnOrAfter,attr,omitempty"},
	repoModule + "/types.EncryptedAssertion": {"XMLName": "urn:oasis:names:tc:SAML:2.0:assertion EncryptedAssertion",
		"EncryptionMethod": "EncryptedData>EncryptionMethod", "EncryptedKey": "EncryptedData>KeyInfo>EncryptedKey", "DetEncryptedKey": "EncryptedKey",
		"CipherValue": "EncryptedData>CipherData>CipherValue"},
	repoModule + "/types.EncryptedKey": {"X509Data": "KeyInfo>X509Data>X509Certificate", "CipherValue": "CipherData>CipherValue"},
}

func splitQual(q string) (string, string) {
	i := strings.LastIndex(q, ".")
	return q[:i], q[i+1:]
}

func tagsCheck(structs []string, fields func(string) bool) func(w *World) (bool, string) {
	return func(w *World) (bool, string) {
		var bad []string
		n := 0
		for _, q := range structs {
			exp := expectedTags[q]
			pp, name := splitQual(q)
			st, err := w.lookupStruct(pp, name)
			if err != nil {
				bad = append(bad, err.Error())
				continue
			}
			for f, want := range exp {
				if fields != nil && !fields(f) {
					continue
				}
				got, _, ok := xmlTag(st, f)
				n++
				if !ok {
					bad = append(bad, fmt.Sprintf("%s.%s: field missing", name, f))
				} else if got != want {
					bad = append(bad, fmt.Sprintf("%s.%s: xml tag %q, expected %q", name, f, got, want))
				}
			}
		}
		if len(bad) > 0 {
			return false, strings.Join(bad, "; ")
		}
		return true, fmt.Sprintf("%d struct tags agree with the SAML schema binding", n)
	}
}

func allExpectedStructs() []string {
	var out []string
	for k := range expectedTags {
		out = append(out, k)
	}
	return out
}

var schemaChecks = []schemaCheck{
	{"schema.tags.flags", []string{"C04", "C01", "C10"}, tagsCheck([]string{repoModule + "/types.Response", repoModule + "/types.Assertion",
		repoModule + "/types.LogoutResponse", repoModule + ".LogoutRequest"}, func(f string) bool { return f == "SignatureValidated" })},
	{"schema.tags.decode", []string{"C08", "C01"}, tagsCheck(allExpectedStructs(), nil)},
	{"schema.xmlname.kinds", []string{"C10", "C01"}, func(w *World) (bool, string) {
		names := map[string]string{}
		for _, q := range []string{repoModule + "/types.Response", repoModule + "/types.LogoutResponse", repoModule + ".LogoutRequest"} {
			pp, name := splitQual(q)
			st, err := w.lookupStruct(pp, name)
			if err != nil {
				return false, err.Error()
			}
			tag, _, ok := xmlTag(st, "XMLName")
			if !ok || tag == "" || !strings.Contains(tag, " ") {
				return false, name + " has no namespace-qualified XMLName"
			}
			if other, dup := names[tag]; dup {
				return false, fmt.Sprintf("%s and %s share the XMLName %q", name, other, tag)
			}
			names[tag] = name
		}
		return true, "Response, LogoutResponse and LogoutRequest carry three distinct namespace-qualified XMLName tags"
	}},
	{"schema.tags.unverified", []string{"C20"}, func(w *World) (bool, string) {
		u, err := w.lookupStruct(repoModule+"/types", "UnverifiedBaseResponse")
		if err != nil {
			return false, err.Error()
		}
		r, err := w.lookupStruct(repoModule+"/types", "Response")
		if err != nil {
			return false, err.Error()
		}
		var bad []string
		for _, f := range []string{"XMLName", "ID", "InResponseTo", "Destination", "Version", "Issuer"} {
			ut, uty, ok1 := xmlTag(u, f)
			rt, rty, ok2 := xmlTag(r, f)
			if !ok1 || !ok2 {
				bad = append(bad, f+": missing")
			} else if ut != rt || !types.Identical(uty, rty) {
				bad = append(bad, fmt.Sprintf("%s: %q %s vs %q %s", f, ut, uty, rt, rty))
			}
		}
		if len(bad) > 0 {
			return false, "UnverifiedBaseResponse disagrees with Response: " + strings.Join(bad, "; ")
		}
		return true, "UnverifiedBaseResponse binds XMLName, ID, InResponseTo, Destination, Version, Issuer exactly as types.Response does"
	}},
}

func schemaObligations(w *World, prop string) []*Obligation {
	var out []*Obligation
	for _, c := range schemaChecks {
		if !hasTag(c.tags, prop) {
			continue
		}
		ok, detail := c.run(w)
		ob := &Obligation{Name: c.name, Func: "schema", Tags: c.tags, Kind: "schema", Expect: "unsat", Backend: "eval", Note: detail, Clause: c.name, Trivial: true}
		if ok {
			ob.Status = "discharged"
		} else {
			ob.Status = "failed"
		}
		out = append(out, ob)
	}
	return out
}
