package main

// schema.* obligations: facts about program constants, struct tags and callee identities that the
// dependency contracts are parameterised by (DESIGN.md §4.1). They are decided by evaluating go/types
// information of the current tree (back end "eval"), never by a solver, and are reported separately.

import (
	"fmt"
	"go/ast"
	"go/constant"
	"go/token"
	"go/types"
	"golang.org/x/tools/go/ssa"
	"path/filepath"
	"reflect"
	"sort"
	"strings"
)

type schemaCheck struct {
	name string
	tags []string
	run  func(w *World) (ok bool, detail string)
}

func (w *World) lookupStruct(pkgPath, name string) (*types.Struct, error) {
	p := w.AllPkgs[pkgPath]
	if p == nil {
		return nil, fmt.Errorf("package %s not loaded", pkgPath)
	}
	o := p.Scope().Lookup(name)
	if o == nil {
		return nil, fmt.Errorf("type %s.%s not found", pkgPath, name)
	}
	st, ok := o.Type().Underlying().(*types.Struct)
	if !ok {
		return nil, fmt.Errorf("%s.%s is not a struct", pkgPath, name)
	}
	return st, nil
}

func xmlTag(st *types.Struct, field string) (string, types.Type, bool) {
	for i := 0; i < st.NumFields(); i++ {
		if st.Field(i).Name() == field {
			return reflect.StructTag(st.Tag(i)).Get("xml"), st.Field(i).Type(), true
		}
	}
	return "", nil, false
}

// expectedTags: the XML binding the SAML 2.0 schemas prescribe for the fields the properties talk about
// (written from the schema, not from the code): struct -> field -> xml tag.
var expectedTags = map[string]map[string]string{
	repoModule + "/types.Response": {"XMLName": "urn:oasis:names:tc:SAML:2.0:protocol Response", "ID": "ID,attr", "InResponseTo": "InResponseTo,attr",
		"Destination": "Destination,attr", "Version": "Version,attr", "IssueInstant": "IssueInstant,attr", "Status": "Status", "Issuer": "Issuer",
		"Assertions": "Assertion", "EncryptedAssertions": "EncryptedAssertion", "SignatureValidated": "-"},
	repoModule + "/types.LogoutResponse": {"XMLName": "urn:oasis:names:tc:SAML:2.0:protocol LogoutResponse", "ID": "ID,attr", "InResponseTo": "InResponseTo,attr",
		"Destination": "Destination,attr", "Version": "Version,attr", "Status": "Status", "Issuer": "Issuer", "SignatureValidated": "-"},
	repoModule + ".LogoutRequest": {"XMLName": "urn:oasis:names:tc:SAML:2.0:protocol LogoutRequest", "ID": "ID,attr", "Version": "Version,attr",
		"Destination": "Destination,attr", "Issuer": "Issuer", "NameID": "NameID", "SignatureValidated": "-"},
	repoModule + "/types.Assertion": {"XMLName": "urn:oasis:names:tc:SAML:2.0:assertion Assertion", "Version": "Version,attr", "ID": "ID,attr",
		"IssueInstant": "IssueInstant,attr", "Issuer": "Issuer", "Subject": "Subject", "Conditions": "Conditions",
		"AttributeStatement": "AttributeStatement", "AuthnStatement": "AuthnStatement", "SignatureValidated": "-"},
	repoModule + "/types.Status":     {"XMLName": "urn:oasis:names:tc:SAML:2.0:protocol Status", "StatusCode": "StatusCode"},
	repoModule + "/types.StatusCode": {"XMLName": "urn:oasis:names:tc:SAML:2.0:protocol StatusCode", "Value": "Value,attr"},
	repoModule + "/types.Issuer":     {"XMLName": "urn:oasis:names:tc:SAML:2.0:assertion Issuer", "Value": ",chardata"},
	repoModule + "/types.Subject":    {"XMLName": "urn:oasis:names:tc:SAML:2.0:assertion Subject", "NameID": "NameID", "SubjectConfirmation": "SubjectConfirmation"},
	repoModule + "/types.NameID":     {"XMLName": "urn:oasis:names:tc:SAML:2.0:assertion NameID", "Value": ",chardata"},
	repoModule + "/types.SubjectConfirmation": {"XMLName": "urn:oasis:names:tc:SAML:2.0:assertion SubjectConfirmation", "Method": "Method,attr",
		"SubjectConfirmationData": "SubjectConfirmationData"},
	repoModule + "/types.SubjectConfirmationData": {"XMLName": "urn:oasis:names:tc:SAML:2.0:assertion SubjectConfirmationData",
		"NotOnOrAfter": "NotOnOrAfter,attr", "Recipient": "Recipient,attr", "InResponseTo": "InResponseTo,attr"},
	repoModule + "/types.Conditions": {"XMLName": "urn:oasis:names:tc:SAML:2.0:assertion Conditions", "NotBefore": "NotBefore,attr",
		"NotOnOrAfter": "NotOnOrAfter,attr", "AudienceRestrictions": "AudienceRestriction", "OneTimeUse": "OneTimeUse", "ProxyRestriction": "ProxyRestriction"},
	repoModule + "/types.AudienceRestriction": {"XMLName": "urn:oasis:names:tc:SAML:2.0:assertion AudienceRestriction", "Audiences": "Audience"},
	repoModule + "/types.Audience":            {"XMLName": "urn:oasis:names:tc:SAML:2.0:assertion Audience", "Value": ",chardata"},
	repoModule + "/types.OneTimeUse":          {"XMLName": "urn:oasis:names:tc:SAML:2.0:assertion OneTimeUse"},
	repoModule + "/types.ProxyRestriction":    {"XMLName": "urn:oasis:names:tc:SAML:2.0:assertion ProxyRestriction", "Count": "Count,attr", "Audience": "Audience"},
	repoModule + "/types.AttributeStatement":  {"XMLName": "urn:oasis:names:tc:SAML:2.0:assertion AttributeStatement", "Attributes": "Attribute"},
	repoModule + "/types.Attribute": {"XMLName": "urn:oasis:names:tc:SAML:2.0:assertion Attribute", "FriendlyName": "FriendlyName,attr",
		"Name": "Name,attr", "NameFormat": "NameFormat,attr", "Values": "AttributeValue"},
	repoModule + "/types.AttributeValue": {"XMLName": "urn:oasis:names:tc:SAML:2.0:assertion AttributeValue", "Value": ",chardata"},
	repoModule + "/types.AuthnStatement": {"XMLName": "urn:oasis:names:tc:SAML:2.0:assertion AuthnStatement", "SessionIndex": "SessionIndex,attr,omitempty",
		"AuthnInstant": "AuthnInstant,attr,omitempty", "SessionNotOnOrAfter": "SessionNotOnOrAfter,attr,omitempty"},
	repoModule + "/types.EncryptedAssertion": {"XMLName": "urn:oasis:names:tc:SAML:2.0:assertion EncryptedAssertion",
		"EncryptionMethod": "EncryptedData>EncryptionMethod", "EncryptedKey": "EncryptedData>KeyInfo>EncryptedKey", "DetEncryptedKey": "EncryptedKey",
		"CipherValue": "EncryptedData>CipherData>CipherValue"},
	repoModule + "/types.EncryptedKey":     {"X509Data": "KeyInfo>X509Data>X509Certificate", "CipherValue": "CipherData>CipherValue", "EncryptionMethod": ""},
	repoModule + "/types.EncryptionMethod": {"Algorithm": ",attr,omitempty", "DigestMethod": ",omitempty"},
	repoModule + "/types.DigestMethod":     {"Algorithm": ",attr,omitempty"},
	repoModule + "/types.EntityDescriptor": {"XMLName": "urn:oasis:names:tc:SAML:2.0:metadata EntityDescriptor", "ValidUntil": "validUntil,attr",
		"EntityID": "entityID,attr", "SPSSODescriptor": "SPSSODescriptor,omitempty"},
	repoModule + "/types.SPSSODescriptor": {"XMLName": "urn:oasis:names:tc:SAML:2.0:metadata SPSSODescriptor", "AuthnRequestsSigned": "AuthnRequestsSigned,attr",
		"WantAssertionsSigned": "WantAssertionsSigned,attr", "ProtocolSupportEnumeration": "protocolSupportEnumeration,attr", "KeyDescriptors": "KeyDescriptor",
		"SingleLogoutServices": "SingleLogoutService", "AssertionConsumerServices": "AssertionConsumerService"},
	repoModule + "/types.KeyDescriptor": {"XMLName": "urn:oasis:names:tc:SAML:2.0:metadata KeyDescriptor", "Use": "use,attr", "KeyInfo": "KeyInfo",
		"EncryptionMethods": "EncryptionMethod"},
	repoModule + "/types.IndexedEndpoint": {"Binding": "Binding,attr", "Location": "Location,attr", "Index": "index,attr"},
	repoModule + "/types.Endpoint":        {"Binding": "Binding,attr", "Location": "Location,attr", "ResponseLocation": "ResponseLocation,attr,omitempty"},
}

// metadataStructs: what the SP publishes (C19); attribute and element names as in saml-schema-metadata-2.0.xsd.
var metadataStructs = []string{repoModule + "/types.EntityDescriptor", repoModule + "/types.SPSSODescriptor", repoModule + "/types.KeyDescriptor",
	repoModule + "/types.IndexedEndpoint", repoModule + "/types.Endpoint"}

// xmlencStructs: the XML-Encryption part of the binding (what DecryptSymmetricKey / DecryptBytes dispatch on).
var xmlencStructs = []string{repoModule + "/types.EncryptedAssertion", repoModule + "/types.EncryptedKey", repoModule + "/types.EncryptionMethod", repoModule + "/types.DigestMethod"}

func splitQual(q string) (string, string) {
	i := strings.LastIndex(q, ".")
	return q[:i], q[i+1:]
}

// tagsCheckFields: the expected tags of the listed fields (nil = every field in the table) of the listed structs
// (keys are "types.X" for the types package and ".X" for the root package).
func tagsCheckFields(sel map[string][]string) func(w *World) (bool, string) {
	return func(w *World) (bool, string) {
		var bad []string
		n := 0
		var keys []string
		for k := range sel {
			keys = append(keys, k)
		}
		sort.Strings(keys)
		for _, k := range keys {
			q := repoModule + "/" + k
			if strings.HasPrefix(k, ".") {
				q = repoModule + k
			}
			exp := expectedTags[q]
			if exp == nil {
				bad = append(bad, "no expected tags recorded for "+k)
				continue
			}
			pp, name := splitQual(q)
			st, err := w.lookupStruct(pp, name)
			if err != nil {
				bad = append(bad, err.Error())
				continue
			}
			fields := sel[k]
			if fields == nil {
				for f := range exp {
					fields = append(fields, f)
				}
				sort.Strings(fields)
			}
			for _, f := range fields {
				want, known := exp[f]
				if !known {
					bad = append(bad, fmt.Sprintf("%s.%s: no expected tag recorded", name, f))
					continue
				}
				got, _, ok := xmlTag(st, f)
				n++
				if !ok {
					bad = append(bad, fmt.Sprintf("%s.%s: field missing", name, f))
				} else if got != want {
					bad = append(bad, fmt.Sprintf("%s.%s: xml tag %q, expected %q", name, f, got, want))
				}
			}
		}
		if len(bad) > 0 {
			return false, strings.Join(bad, "; ")
		}
		return true, fmt.Sprintf("%d struct tags agree with the SAML schema binding", n)
	}
}

func tagsCheck(structs []string, fields func(string) bool) func(w *World) (bool, string) {
	return func(w *World) (bool, string) {
		var bad []string
		n := 0
		for _, q := range structs {
			exp := expectedTags[q]
			pp, name := splitQual(q)
			st, err := w.lookupStruct(pp, name)
			if err != nil {
				bad = append(bad, err.Error())
				continue
			}
			for f, want := range exp {
				if fields != nil && !fields(f) {
					continue
				}
				got, _, ok := xmlTag(st, f)
				n++
				if !ok {
					bad = append(bad, fmt.Sprintf("%s.%s: field missing", name, f))
				} else if got != want {
					bad = append(bad, fmt.Sprintf("%s.%s: xml tag %q, expected %q", name, f, got, want))
				}
			}
		}
		if len(bad) > 0 {
			return false, strings.Join(bad, "; ")
		}
		return true, fmt.Sprintf("%d struct tags agree with the SAML schema binding", n)
	}
}

// decodeStructs: the inbound message structs (everything in the table except the metadata types).
func decodeStructs() []string {
	md := map[string]bool{}
	for _, m := range metadataStructs {
		md[m] = true
	}
	for _, m := range xmlencStructs {
		md[m] = true // the XML-Encryption part is schema.tags.xmlenc (C11, C07)
	}
	var out []string
	for k := range expectedTags {
		if !md[k] {
			out = append(out, k)
		}
	}
	sort.Strings(out)
	return out
}

func allExpectedStructs() []string {
	var out []string
	for k := range expectedTags {
		out = append(out, k)
	}
	return out
}

// noCustomUnmarshal: the decode contract of encoding/xml (struct-tag driven binding) only applies to types without
// their own UnmarshalXML / UnmarshalXMLAttr / UnmarshalText methods.
func noCustomUnmarshal(w *World) (bool, string) {
	var bad []string
	n := 0
	for q := range expectedTags {
		pp, name := splitQual(q)
		p := w.AllPkgs[pp]
		if p == nil {
			continue
		}
		o := p.Scope().Lookup(name)
		if o == nil {
			continue
		}
		n++
		for _, t := range []types.Type{o.Type(), types.NewPointer(o.Type())} {
			ms := types.NewMethodSet(t)
			for i := 0; i < ms.Len(); i++ {
				switch ms.At(i).Obj().Name() {
				case "UnmarshalXML", "UnmarshalXMLAttr", "UnmarshalText":
					bad = append(bad, name+"."+ms.At(i).Obj().Name())
				}
			}
		}
	}
	for _, name := range []string{"UnverifiedBaseResponse"} {
		o := w.AllPkgs[repoModule+"/types"].Scope().Lookup(name)
		if o == nil {
			continue
		}
		n++
		for _, t := range []types.Type{o.Type(), types.NewPointer(o.Type())} {
			ms := types.NewMethodSet(t)
			for i := 0; i < ms.Len(); i++ {
				switch ms.At(i).Obj().Name() {
				case "UnmarshalXML", "UnmarshalXMLAttr", "UnmarshalText":
					bad = append(bad, name+"."+ms.At(i).Obj().Name())
				}
			}
		}
	}
	if len(bad) > 0 {
		return false, "custom XML decoding methods bypass the tag-driven binding: " + strings.Join(bad, ", ")
	}
	return true, fmt.Sprintf("%d decoded struct types use the tag-driven binding only", n)
}

var schemaChecks = []schemaCheck{
	{"schema.templates.shape", []string{"C16"}, func(w *World) (bool, string) {
		facts, problems := templateFacts(w)
		if len(problems) > 0 {
			return false, strings.Join(problems, "; ")
		}
		if len(facts) == 0 {
			return false, "no html/template constants found"
		}
		for _, f := range facts {
			if !f.wellOK {
				return false, f.fn + ": " + f.why
			}
		}
		return true, fmt.Sprintf("%d html/template constants: one auto-submitting POST form, action {{.URL}}, hidden payload and optional RelayState inputs, every action a complete double-quoted attribute value", len(facts))
	}},
	{"schema.templates.fields", []string{"C16"}, dataFieldsAreStrings},
	{"schema.decode.reflective", []string{"C20", "C08", "C01", "C03", "C04", "C05", "C06", "C10"}, noCustomUnmarshal},
	{"schema.uuid.string", []string{"C18"}, uuidStringShape},
	{"schema.config.frame", []string{"C17", "C01", "C02"}, configFrame},
	{"schema.globals.frame", []string{"C17", "C18"}, globalsFrame},
	{"schema.unverified.free", []string{"C20"}, func(w *World) (bool, string) {
		ok1, d1 := freeFunc(w, "DecodeUnverifiedBaseResponse")
		ok2, d2 := freeFunc(w, "DecodeUnverifiedLogoutResponse")
		return ok1 && ok2, d1 + "; " + d2
	}},
	{"schema.tags.flags", []string{"C04", "C01", "C10"}, tagsCheck([]string{repoModule + "/types.Response", repoModule + "/types.Assertion",
		repoModule + "/types.LogoutResponse", repoModule + ".LogoutRequest"}, func(f string) bool { return f == "SignatureValidated" })},
	// the inbound binding, per property: each property is held to the tags of the fields its statement is about
	{"schema.tags.decode", []string{"C08"}, tagsCheck(decodeStructs(), nil)},
	{"schema.tags.decode", []string{"C01"}, tagsCheckFields(map[string][]string{
		"types.Response": {"XMLName", "Assertions", "EncryptedAssertions", "SignatureValidated"}, "types.Assertion": {"XMLName", "SignatureValidated"}})},
	{"schema.tags.decode", []string{"C03"}, tagsCheckFields(map[string][]string{
		"types.Response": {"XMLName", "Version", "Destination", "Issuer", "Status", "Assertions"}, "types.Status": nil, "types.StatusCode": nil, "types.Issuer": nil,
		"types.Assertion": {"XMLName", "Issuer", "Subject"}, "types.Subject": {"XMLName", "SubjectConfirmation"}, "types.SubjectConfirmation": nil,
		"types.SubjectConfirmationData": {"XMLName", "Recipient", "NotOnOrAfter"}})},
	{"schema.tags.decode", []string{"C05"}, tagsCheckFields(map[string][]string{
		"types.Response": {"Assertions"}, "types.Assertion": {"Subject", "Conditions"}, "types.Subject": {"SubjectConfirmation"},
		"types.SubjectConfirmation": {"SubjectConfirmationData"}, "types.SubjectConfirmationData": {"NotOnOrAfter"}, "types.Conditions": {"XMLName", "NotBefore", "NotOnOrAfter"}})},
	{"schema.tags.decode", []string{"C06"}, tagsCheckFields(map[string][]string{
		"types.Response": {"Assertions"}, "types.Assertion": {"Conditions"}, "types.Conditions": {"XMLName", "AudienceRestrictions", "OneTimeUse", "ProxyRestriction"},
		"types.AudienceRestriction": nil, "types.Audience": nil, "types.OneTimeUse": nil, "types.ProxyRestriction": nil})},
	{"schema.tags.decode", []string{"C10"}, tagsCheckFields(map[string][]string{
		"types.LogoutResponse": nil, ".LogoutRequest": nil, "types.Status": nil, "types.StatusCode": nil, "types.Issuer": nil, "types.NameID": nil})},
	{"schema.tags.metadata", []string{"C19"}, tagsCheck(metadataStructs, nil)},
	{"schema.encode.reflective", []string{"C19"}, func(w *World) (bool, string) {
		var bad []string
		for _, q := range metadataStructs {
			pp, name := splitQual(q)
			p := w.AllPkgs[pp]
			if p == nil || p.Scope().Lookup(name) == nil {
				continue
			}
			o := p.Scope().Lookup(name)
			for _, t := range []types.Type{o.Type(), types.NewPointer(o.Type())} {
				ms := types.NewMethodSet(t)
				for i := 0; i < ms.Len(); i++ {
					switch ms.At(i).Obj().Name() {
					case "MarshalXML", "MarshalXMLAttr", "MarshalText":
						bad = append(bad, name+"."+ms.At(i).Obj().Name())
					}
				}
			}
		}
		if len(bad) > 0 {
			return false, "custom XML encoding methods bypass the tag-driven binding: " + strings.Join(bad, ", ")
		}
		return true, fmt.Sprintf("%d metadata struct types are encoded by the tag-driven binding only", len(metadataStructs))
	}},
	{"schema.tags.xmlenc", []string{"C11", "C07"}, tagsCheck(xmlencStructs, nil)},
	{"schema.xmlname.kinds", []string{"C10", "C01"}, func(w *World) (bool, string) {
		names := map[string]string{}
		for _, q := range []string{repoModule + "/types.Response", repoModule + "/types.LogoutResponse", repoModule + ".LogoutRequest"} {
			pp, name := splitQual(q)
			st, err := w.lookupStruct(pp, name)
			if err != nil {
				return false, err.Error()
			}
			tag, _, ok := xmlTag(st, "XMLName")
			if !ok || tag == "" || !strings.Contains(tag, " ") {
				return false, name + " has no namespace-qualified XMLName"
			}
			if other, dup := names[tag]; dup {
				return false, fmt.Sprintf("%s and %s share the XMLName %q", name, other, tag)
			}
			names[tag] = name
		}
		return true, "Response, LogoutResponse and LogoutRequest carry three distinct namespace-qualified XMLName tags"
	}},
	{"schema.tags.unverified", []string{"C20"}, func(w *World) (bool, string) {
		u, err := w.lookupStruct(repoModule+"/types", "UnverifiedBaseResponse")
		if err != nil {
			return false, err.Error()
		}
		r, err := w.lookupStruct(repoModule+"/types", "Response")
		if err != nil {
			return false, err.Error()
		}
		var bad []string
		for _, f := range []string{"XMLName", "ID", "InResponseTo", "Destination", "Version", "Issuer"} {
			ut, uty, ok1 := xmlTag(u, f)
			rt, rty, ok2 := xmlTag(r, f)
			if !ok1 || !ok2 {
				bad = append(bad, f+": missing")
			} else if ut != rt || !types.Identical(uty, rty) {
				bad = append(bad, fmt.Sprintf("%s: %q %s vs %q %s", f, ut, uty, rt, rty))
			}
		}
		if len(bad) > 0 {
			return false, "UnverifiedBaseResponse disagrees with Response: " + strings.Join(bad, "; ")
		}
		return true, "UnverifiedBaseResponse binds XMLName, ID, InResponseTo, Destination, Version, Issuer exactly as types.Response does"
	}},
}

// uuidStringShape checks (syntactically) that (*UUID).String is a single fmt.Sprintf call with the canonical
// 8-4-4-4-12 lower-case hex format over the slices [:4] [4:6] [6:8] [8:10] [10:] of the receiver.
func uuidStringShape(w *World) (bool, string) {
	for _, p := range w.Pkgs {
		if p.PkgPath != repoModule+"/uuid" {
			continue
		}
		for _, f := range p.Syntax {
			for _, d := range f.Decls {
				fd, ok := d.(*ast.FuncDecl)
				if !ok || fd.Name.Name != "String" || fd.Recv == nil || fd.Body == nil {
					continue
				}
				if len(fd.Body.List) != 1 {
					return false, "String has more than one statement"
				}
				ret, ok := fd.Body.List[0].(*ast.ReturnStmt)
				if !ok || len(ret.Results) != 1 {
					return false, "String does not consist of a single return"
				}
				call, ok := ret.Results[0].(*ast.CallExpr)
				if !ok {
					return false, "String does not return a call"
				}
				sel, ok := call.Fun.(*ast.SelectorExpr)
				if !ok || sel.Sel.Name != "Sprintf" {
					return false, "String does not call Sprintf"
				}
				if obj, ok := p.TypesInfo.Uses[sel.Sel].(*types.Func); !ok || obj.Pkg() == nil || obj.Pkg().Path() != "fmt" {
					return false, "Sprintf is not fmt.Sprintf"
				}
				if len(call.Args) != 6 {
					return false, "Sprintf does not take the format and five slices"
				}
				tv, ok := p.TypesInfo.Types[call.Args[0]]
				if !ok || tv.Value == nil || constant.StringVal(tv.Value) != "%x-%x-%x-%x-%x" {
					return false, "format is not \"%x-%x-%x-%x-%x\""
				}
				want := [][2]string{{"", "4"}, {"4", "6"}, {"6", "8"}, {"8", "10"}, {"10", ""}}
				for i, a := range call.Args[1:] {
					se, ok := a.(*ast.SliceExpr)
					if !ok {
						return false, fmt.Sprintf("argument %d is not a slice expression", i+1)
					}
					lit := func(e ast.Expr) string {
						if e == nil {
							return ""
						}
						if tv, ok := p.TypesInfo.Types[e]; ok && tv.Value != nil {
							return tv.Value.ExactString()
						}
						return "?"
					}
					lo, hi := lit(se.Low), lit(se.High)
					if lo == "0" {
						lo = ""
					}
					if hi == "16" {
						hi = ""
					}
					if lo != want[i][0] || hi != want[i][1] {
						return false, fmt.Sprintf("slice %d is [%s:%s], expected [%s:%s]", i+1, lo, hi, want[i][0], want[i][1])
					}
				}
				return true, "(*UUID).String is fmt.Sprintf(\"%x-%x-%x-%x-%x\", u[:4], u[4:6], u[6:8], u[8:10], u[10:])"
			}
		}
	}
	return false, "(*UUID).String not found"
}

// freeFunc checks that a package-level function takes exactly one string and no receiver (no key / SP input).
func freeFunc(w *World, name string) (bool, string) {
	p := w.AllPkgs[repoModule]
	o, ok := p.Scope().Lookup(name).(*types.Func)
	if !ok {
		return false, name + " is not a package-level function"
	}
	sig := o.Type().(*types.Signature)
	if sig.Recv() != nil || sig.Params().Len() != 1 || !isString(sig.Params().At(0).Type()) {
		return false, name + " takes more than the encoded message"
	}
	return true, name + " is a free function of the encoded message only"
}

// ---- POST-binding form templates (C16) ----

type tmplFact struct {
	text     string
	fn       string
	hasRelay bool
	payload  string // SAMLRequest / SAMLResponse / ""
	wellOK   bool
	why      string
}

// analyseTemplate checks the structure the property needs of one template constant.
func analyseTemplate(text string) (payload string, hasRelay bool, ok bool, why string) {
	low := strings.ToLower(text)
	if strings.Count(low, "<form") != 1 {
		return "", false, false, "not exactly one <form"
	}
	if !strings.Contains(low, `method="post"`) {
		return "", false, false, "form method is not POST"
	}
	if !strings.Contains(text, `action="{{.URL}}"`) {
		return "", false, false, `form action is not "{{.URL}}"`
	}
	for _, p := range []string{"SAMLRequest", "SAMLResponse"} {
		if strings.Contains(text, `<input type="hidden" name="`+p+`" value="{{.`+p+`}}" />`) {
			if payload != "" {
				return "", false, false, "both SAMLRequest and SAMLResponse inputs"
			}
			payload = p
		}
	}
	if payload == "" {
		return "", false, false, "no hidden SAMLRequest/SAMLResponse input bound to its field"
	}
	hasRelay = strings.Contains(text, `<input type="hidden" name="RelayState" value="{{.RelayState}}" />`)
	// every action sits inside a double-quoted attribute value, and only the known fields are used
	rest := text
	n := 0
	for {
		i := strings.Index(rest, "{{")
		if i < 0 {
			break
		}
		j := strings.Index(rest[i:], "}}")
		if j < 0 {
			return "", false, false, "unterminated action"
		}
		act := rest[i : i+j+2]
		switch act {
		case "{{.URL}}", "{{." + payload + "}}", "{{.RelayState}}":
		default:
			return "", false, false, "unexpected template action " + act
		}
		if i == 0 || rest[i-1] != '"' || i+j+2 >= len(rest) || rest[i+j+2] != '"' {
			return "", false, false, "action " + act + " is not a complete double-quoted attribute value"
		}
		if act == "{{.RelayState}}" && !hasRelay {
			return "", false, false, "RelayState used outside its hidden input"
		}
		n++
		rest = rest[i+j+2:]
	}
	want := 2
	if hasRelay {
		want = 3
	}
	if n != want {
		return "", false, false, fmt.Sprintf("%d actions, expected %d", n, want)
	}
	if !strings.Contains(low, ".submit()") {
		return "", false, false, "form is not auto-submitting"
	}
	return payload, hasRelay, true, ""
}

// argSources: the values that reach a call argument. A parameter of an unexported repository function (a helper the
// code was factored into) is traced to the corresponding argument of every call of that function, one level deep;
// ok is false when the function is exported, is used as a value, or has no caller.
func argSources(w *World, fn *ssa.Function, v ssa.Value) (vals []ssa.Value, callers []*ssa.Function, ok bool) {
	// naive-form SSA keeps parameters in local cells: look through a load of a cell whose only store is a parameter
	if ld, isLoad := v.(*ssa.UnOp); isLoad && ld.Op == token.MUL {
		if al, isAlloc := ld.X.(*ssa.Alloc); isAlloc && al.Referrers() != nil {
			var stored []ssa.Value
			for _, r := range *al.Referrers() {
				if st, isStore := r.(*ssa.Store); isStore && st.Addr == al {
					stored = append(stored, st.Val)
				}
			}
			if len(stored) == 1 {
				if _, isParam := stored[0].(*ssa.Parameter); isParam {
					v = stored[0]
				}
			}
		}
	}
	p, isParam := v.(*ssa.Parameter)
	if !isParam {
		return []ssa.Value{v}, []*ssa.Function{fn}, true
	}
	if fn.Object() == nil || fn.Object().Exported() {
		return nil, nil, false
	}
	idx := -1
	for i, q := range fn.Params {
		if q == p {
			idx = i
		}
	}
	if idx < 0 {
		return nil, nil, false
	}
	for _, sp := range w.RepoPkgs {
		for _, g := range allFuncs(sp) {
			for _, b := range g.Blocks {
				for _, in := range b.Instrs {
					if _, isDbg := in.(*ssa.DebugRef); isDbg {
						continue
					}
					for _, op := range in.Operands(nil) {
						if *op == ssa.Value(fn) {
							ci, isCall := in.(ssa.CallInstruction)
							if !isCall || ci.Common().StaticCallee() != fn {
								return nil, nil, false // used as a value
							}
						}
					}
					ci, isCall := in.(ssa.CallInstruction)
					if !isCall || ci.Common().StaticCallee() != fn || idx >= len(ci.Common().Args) {
						continue
					}
					vals = append(vals, ci.Common().Args[idx])
					callers = append(callers, g)
				}
			}
		}
	}
	return vals, callers, len(vals) > 0
}

// templateFacts finds every constant passed to (*html/template.Template).Parse in the repo packages.
func templateFacts(w *World) ([]tmplFact, []string) {
	var facts []tmplFact
	var problems []string
	for _, sp := range w.RepoPkgs {
		for _, fn := range allFuncs(sp) {
			for _, b := range fn.Blocks {
				for _, in := range b.Instrs {
					c, ok := in.(*ssa.Call)
					if !ok {
						continue
					}
					callee := c.Call.StaticCallee()
					if callee == nil || callee.Name() != "Parse" || callee.Pkg == nil {
						continue
					}
					path := callee.Pkg.Pkg.Path()
					if path != "html/template" && path != "text/template" {
						continue
					}
					if path != "html/template" {
						problems = append(problems, shortFn(fnKey(fn))+" parses a template with "+path)
						continue
					}
					if len(c.Call.Args) < 2 {
						continue
					}
					srcs, callers, traced := argSources(w, fn, c.Call.Args[1])
					if !traced {
						problems = append(problems, shortFn(fnKey(fn))+" parses a non-constant template")
						continue
					}
					for si, sv := range srcs {
						k, ok := sv.(*ssa.Const)
						if !ok || k.Value == nil || k.Value.Kind() != constant.String {
							problems = append(problems, shortFn(fnKey(callers[si]))+" parses a non-constant template")
							continue
						}
						text := constant.StringVal(k.Value)
						p, hr, okk, why := analyseTemplate(text)
						facts = append(facts, tmplFact{text: text, fn: shortFn(fnKey(callers[si])), hasRelay: hr, payload: p, wellOK: okk, why: why})
					}
				}
			}
		}
	}
	return facts, problems
}

// registerTemplateAxioms turns the facts about the template constants into axioms for the ghost predicates.
func registerTemplateAxioms(w *World) {
	facts, _ := templateFacts(w)
	if _, ok := w.GhostFuncs["tmplHasRelay"]; !ok {
		return
	}
	w.Reg.DeclareFunc("ghost:tmplHasRelay", []string{SStr}, SBool)
	w.Reg.DeclareFunc("ghost:tmplWellFormed", []string{SStr, SStr}, SBool)
	seen := map[string]bool{}
	for _, f := range facts {
		if seen[f.text] {
			continue
		}
		seen[f.text] = true
		lit := w.Reg.StrLit(f.text)
		var parts []*Term
		parts = append(parts, Eq(w.Reg.Apply("ghost:tmplHasRelay", lit), BoolT(f.hasRelay)))
		for _, p := range []string{"SAMLRequest", "SAMLResponse"} {
			parts = append(parts, Eq(w.Reg.Apply("ghost:tmplWellFormed", lit, w.Reg.StrLit(p)), BoolT(f.wellOK && f.payload == p)))
		}
		w.Reg.AddAxiom(fmt.Sprintf("schema:template:%d", len(seen)), []string{lit.Name}, And(parts...))
	}
}

// dataFieldsAreStrings: every value handed to (*html/template.Template).Execute is a struct of plain string fields.
func dataFieldsAreStrings(w *World) (bool, string) {
	n := 0
	for _, sp := range w.RepoPkgs {
		for _, fn := range allFuncs(sp) {
			for _, b := range fn.Blocks {
				for _, in := range b.Instrs {
					c, ok := in.(*ssa.Call)
					if !ok {
						continue
					}
					callee := c.Call.StaticCallee()
					if callee == nil || callee.Name() != "Execute" || callee.Pkg == nil || !strings.HasSuffix(callee.Pkg.Pkg.Path(), "/template") {
						continue
					}
					if callee.Pkg.Pkg.Path() != "html/template" {
						return false, shortFn(fnKey(fn)) + " executes a " + callee.Pkg.Pkg.Path() + " template"
					}
					srcs, callers, traced := argSources(w, fn, c.Call.Args[2])
					if !traced {
						return false, shortFn(fnKey(fn)) + ": template data is not a struct literal"
					}
					for si, sv := range srcs {
						who := shortFn(fnKey(callers[si]))
						mi, ok := sv.(*ssa.MakeInterface)
						if !ok {
							return false, who + ": template data is not a struct literal"
						}
						st, ok := mi.X.Type().Underlying().(*types.Struct)
						if !ok {
							return false, who + ": template data is not a struct"
						}
						for i := 0; i < st.NumFields(); i++ {
							if bt, ok := st.Field(i).Type().(*types.Basic); !ok || bt.Kind() != types.String {
								return false, fmt.Sprintf("%s: template field %s has type %s (must be plain string so that html/template escapes it)", who, st.Field(i).Name(), st.Field(i).Type())
							}
						}
						n++
					}
				}
			}
		}
	}
	if n == 0 {
		return false, "no template execution found"
	}
	return true, fmt.Sprintf("%d template executions bind only plain string fields", n)
}

func schemaObligations(w *World, prop string) []*Obligation {
	var out []*Obligation
	for _, c := range schemaChecks {
		if !hasTag(c.tags, prop) {
			continue
		}
		ok, detail := c.run(w)
		ob := &Obligation{Name: c.name, Func: "schema", Tags: c.tags, Kind: "schema", Expect: "unsat", Backend: "eval", Note: detail, Clause: c.name, Trivial: true}
		if ok {
			ob.Status = "discharged"
		} else {
			ob.Status = "failed"
		}
		out = append(out, ob)
	}
	return out
}

// configFrame (C17, C01, C02): frame condition on the configuration object, checked for EVERY function of the repository,
// with or without a contract. A store whose target is reached through a field of SAMLServiceProvider (sp.F = v,
// sp.F.G = v, sp.F[i] = v, sp.F++, *sp = v) or an explicit &sp.F must be licensed by an `assigns` clause of the
// enclosing function's contract that names that field; a function without a contract has no licence. A write to
// the direct field of a local non-pointer copy of the struct is not a write to the shared object and is ignored.
func configFrame(w *World) (bool, string) {
	var bad []string
	nFuncs, nStores := 0, 0
	isSP := func(t types.Type) bool {
		t = types.Unalias(t)
		if p, ok := t.(*types.Pointer); ok {
			t = types.Unalias(p.Elem())
		}
		n, ok := t.(*types.Named)
		return ok && n.Obj().Name() == "SAMLServiceProvider" && n.Obj().Pkg() != nil && n.Obj().Pkg().Path() == repoModule
	}
	// static callers inside the repository: callee key -> caller keys (closures count for their enclosing function)
	callers := map[string]map[string]bool{}
	exported := map[string]bool{}
	for _, p := range w.Pkgs {
		if !strings.HasPrefix(p.PkgPath, repoModule) {
			continue
		}
		for _, f := range p.Syntax {
			for _, d := range f.Decls {
				fd, ok := d.(*ast.FuncDecl)
				if !ok || fd.Body == nil {
					continue
				}
				obj, ok := p.TypesInfo.Defs[fd.Name].(*types.Func)
				if !ok {
					continue
				}
				from := funcKeyOf(obj)
				exported[from] = obj.Exported()
				ast.Inspect(fd.Body, func(n ast.Node) bool {
					var id *ast.Ident
					switch e := n.(type) {
					case *ast.SelectorExpr:
						id = e.Sel
					case *ast.Ident:
						id = e
					}
					if id != nil {
						if callee, ok := p.TypesInfo.Uses[id].(*types.Func); ok && callee.Pkg() != nil && strings.HasPrefix(callee.Pkg().Path(), repoModule) {
							k := funcKeyOf(callee)
							if callers[k] == nil {
								callers[k] = map[string]bool{}
							}
							callers[k][from] = true
						}
					}
					return true
				})
			}
		}
	}
	for _, p := range w.Pkgs {
		if !strings.HasPrefix(p.PkgPath, repoModule) {
			continue
		}
		for _, f := range p.Syntax {
			for _, d := range f.Decls {
				fd, ok := d.(*ast.FuncDecl)
				if !ok || fd.Body == nil {
					continue
				}
				nFuncs++
				key, name := fd.Name.Name, fd.Name.Name
				if obj, ok := p.TypesInfo.Defs[fd.Name].(*types.Func); ok {
					key = funcKeyOf(obj)
					name = shortFn(key)
				}
				var licensedFn func(key, field string, seen map[string]bool) bool
				licensedFn = func(key, field string, seen map[string]bool) bool {
					sp := w.FuncSpecs[key]
					if sp == nil {
						// an unexported helper without a contract is verified as part of its callers (it is inlined
						// there): it inherits the licence if it is referenced and every function referring to it has one
						if exported[key] || len(callers[key]) == 0 || seen[key] {
							return false
						}
						seen[key] = true
						for c := range callers[key] {
							if c != key && !licensedFn(c, field, seen) {
								return false
							}
						}
						return true
					}
					for _, a := range sp.Assigns {
						if a.All || a.Field == field {
							return true
						}
						found := false
						var walk func(e SExpr)
						walk = func(e SExpr) {
							switch n := e.(type) {
							case *SSelect:
								if n.Sel == field {
									found = true
								}
								walk(n.X)
							case *SIndex:
								walk(n.X)
							case *SUnary:
								walk(n.X)
							}
						}
						if a.Expr != nil {
							walk(a.Expr)
						}
						if found {
							return true
						}
					}
					return false
				}
				licensed := func(field string) bool { return licensedFn(key, field, map[string]bool{}) }
				// target reports the SAMLServiceProvider field through which the expression e is reached ("" if none)
				target := func(e ast.Expr) (field string, directOnCopy bool) {
					depth := 0
					for {
						switch n := e.(type) {
						case *ast.ParenExpr:
							e = n.X
						case *ast.IndexExpr:
							e = n.X
							depth++
						case *ast.SliceExpr:
							e = n.X
							depth++
						case *ast.StarExpr:
							if tv, ok := p.TypesInfo.Types[n]; ok && isSP(tv.Type) {
								if _, isPtr := types.Unalias(tv.Type).(*types.Pointer); !isPtr && depth == 0 {
									return "*", false
								}
							}
							e = n.X
							depth++
						case *ast.SelectorExpr:
							if sel := p.TypesInfo.Selections[n]; sel != nil && sel.Kind() == types.FieldVal && isSP(sel.Recv()) {
								copyBase := false
								if id, ok := n.X.(*ast.Ident); ok {
									if _, isPtr := types.Unalias(p.TypesInfo.TypeOf(id)).(*types.Pointer); !isPtr {
										if v, ok := p.TypesInfo.Uses[id].(*types.Var); ok && !v.IsField() && v.Parent() != nil && v.Parent() != v.Pkg().Scope() {
											copyBase = true
										}
									}
								}
								return n.Sel.Name, copyBase && depth == 0
							}
							e = n.X
							depth++
						default:
							return "", false
						}
					}
				}
				check := func(e ast.Expr, what string) {
					field, onCopy := target(e)
					if field == "" || onCopy {
						return
					}
					nStores++
					if !licensed(field) {
						pos := w.Fset.Position(e.Pos())
						bad = append(bad, fmt.Sprintf("%s %s SAMLServiceProvider.%s at %s:%d without an assigns clause for it (in its own contract or, for an unexported helper without contract, in the contract of every function that uses it)", name, what, field, filepath.Base(pos.Filename), pos.Line))
					}
				}
				ast.Inspect(fd.Body, func(n ast.Node) bool {
					switch s := n.(type) {
					case *ast.AssignStmt:
						if s.Tok != token.DEFINE {
							for _, l := range s.Lhs {
								check(l, "writes")
							}
						}
					case *ast.IncDecStmt:
						check(s.X, "writes")
					case *ast.UnaryExpr:
						if s.Op == token.AND {
							check(s.X, "takes the address of")
						}
					case *ast.RangeStmt:
						if s.Tok == token.ASSIGN {
							if s.Key != nil {
								check(s.Key, "writes")
							}
							if s.Value != nil {
								check(s.Value, "writes")
							}
						}
					}
					return true
				})
			}
		}
	}
	if len(bad) > 0 {
		sort.Strings(bad)
		return false, strings.Join(bad, "; ")
	}
	return true, fmt.Sprintf("%d function bodies of the repository scanned: %d stores reach a SAMLServiceProvider field, each licensed by an assigns clause of its function's contract (unexported helpers without contract: of every function using them)", nFuncs, nStores)
}

// globalsFrame (C17, C18): no function of the repository -- init functions included -- assigns to a package-level
// variable, its own or another package's (crypto/rand.Reader, a shared table, a cached value), or takes its address.
// Package-level state that is written after initialisation is shared by every caller and every goroutine; the
// dependency contracts (crypto/rand.Read reads the OS CSPRNG, package tables are constants) assume it is not.
func globalsFrame(w *World) (bool, string) {
	var bad []string
	nFuncs := 0
	for _, p := range w.Pkgs {
		if !strings.HasPrefix(p.PkgPath, repoModule) {
			continue
		}
		for _, f := range p.Syntax {
			for _, d := range f.Decls {
				fd, ok := d.(*ast.FuncDecl)
				if !ok || fd.Body == nil {
					continue
				}
				nFuncs++
				// global reports the package-level variable at the root of the expression e (nil if none)
				global := func(e ast.Expr) *types.Var {
					for {
						switch n := e.(type) {
						case *ast.ParenExpr:
							e = n.X
						case *ast.IndexExpr:
							e = n.X
						case *ast.SliceExpr:
							e = n.X
						case *ast.StarExpr:
							e = n.X
						case *ast.SelectorExpr:
							if v, ok := p.TypesInfo.Uses[n.Sel].(*types.Var); ok && !v.IsField() && v.Pkg() != nil && v.Parent() == v.Pkg().Scope() {
								return v // pkg.Var
							}
							e = n.X
						case *ast.Ident:
							if v, ok := p.TypesInfo.Uses[n].(*types.Var); ok && !v.IsField() && v.Pkg() != nil && v.Parent() == v.Pkg().Scope() {
								return v
							}
							return nil
						default:
							return nil
						}
					}
				}
				check := func(e ast.Expr, what string) {
					if v := global(e); v != nil {
						pos := w.Fset.Position(e.Pos())
						bad = append(bad, fmt.Sprintf("%s %s package-level variable %s.%s at %s:%d", fd.Name.Name, what, v.Pkg().Name(), v.Name(), filepath.Base(pos.Filename), pos.Line))
					}
				}
				ast.Inspect(fd.Body, func(n ast.Node) bool {
					switch s := n.(type) {
					case *ast.AssignStmt:
						if s.Tok != token.DEFINE {
							for _, l := range s.Lhs {
								check(l, "writes")
							}
						}
					case *ast.IncDecStmt:
						check(s.X, "writes")
					case *ast.UnaryExpr:
						if s.Op == token.AND {
							if _, isLit := s.X.(*ast.CompositeLit); !isLit {
								check(s.X, "takes the address of")
							}
						}
					case *ast.RangeStmt:
						if s.Tok == token.ASSIGN {
							if s.Key != nil {
								check(s.Key, "writes")
							}
							if s.Value != nil {
								check(s.Value, "writes")
							}
						}
					}
					return true
				})
			}
		}
	}
	if len(bad) > 0 {
		sort.Strings(bad)
		return false, strings.Join(bad, "; ")
	}
	return true, fmt.Sprintf("%d function bodies of the repository scanned: none assigns to a package-level variable or takes its address", nFuncs)
}
