package main

// Symbolic state: values, locations, cells, heap, frames.

import (
	"fmt"
	"go/types"
	"strings"

	"golang.org/x/tools/go/ssa"
)

type Closure struct {
	Fn   *ssa.Function
	Bind []Value
}

type Value struct {
	T       types.Type
	Term    *Term
	Loc     *Loc
	Clo     *Closure
	Tup     []Value
	Fn      *ssa.Function
	Builtin *ssa.Builtin
	Global  *ssa.Global
}

func (v Value) IsTerm() bool { return v.Term != nil }

type Cell struct {
	ID   int
	T    types.Type
	Name string
}

type PathStep struct {
	Field int   // index into World.StructFields (ghost fields included); -1 when IsIdx
	Idx   *Term // array index
	IsIdx bool
	FT    types.Type // type of the selected component
}

// Loc is a meta-level address: a root (cell, heap object, immutable value or global) plus a path.
type Loc struct {
	Cell    *Cell
	Ref     *Term // heap object address (Int)
	RootT   types.Type
	RootVal *Term // immutable root (slice element reads): value of type RootT
	Path    []PathStep
	Cond    *Term // conditional location (writes apply only when Cond holds)
}

func (l *Loc) Type() types.Type {
	if len(l.Path) == 0 {
		return l.RootT
	}
	return l.Path[len(l.Path)-1].FT
}

func (l *Loc) extend(s PathStep) *Loc {
	n := *l
	n.Path = append(append([]PathStep{}, l.Path...), s)
	return &n
}

type deferred struct {
	call *ssa.CallCommon
	fn   Value
	args []Value
	pos  ssa.Instruction
}

type Frame struct {
	fn       *ssa.Function
	vals     map[ssa.Value]Value
	cells    map[*ssa.Alloc]*Cell
	block    *ssa.BasicBlock
	prev     *ssa.BasicBlock
	ip       int
	defers   []deferred
	freeVars []Value
	params   []Value
	callSite ssa.CallInstruction // in the caller frame (nil for the root frame)
	cut      map[*ssa.BasicBlock]bool
	unroll   map[*ssa.BasicBlock]int
	depth    int
	// iterator handler frames: where to continue when the handler returns
	iter *iterCtx
}

type State struct {
	frames  []*Frame
	cellVal map[*Cell]Value
	heap    map[string]*Term // heap map name -> current array term
	heapT   map[string]types.Type
	epoch   int
	pc      []*Term
	nalloc  int
	path    []string // human-readable trail of decisions
	mu      *Term    // unused
	ghostI  map[*ssa.BasicBlock]*Term
	trace   []string
	dead    bool
}

func (s *State) clone() *State {
	n := &State{epoch: s.epoch, nalloc: s.nalloc}
	n.frames = make([]*Frame, len(s.frames))
	for i, f := range s.frames {
		nf := *f
		nf.vals = make(map[ssa.Value]Value, len(f.vals))
		for k, v := range f.vals {
			nf.vals[k] = v
		}
		nf.cells = make(map[*ssa.Alloc]*Cell, len(f.cells))
		for k, v := range f.cells {
			nf.cells[k] = v
		}
		nf.cut = map[*ssa.BasicBlock]bool{}
		for k, v := range f.cut {
			nf.cut[k] = v
		}
		nf.unroll = map[*ssa.BasicBlock]int{}
		for k, v := range f.unroll {
			nf.unroll[k] = v
		}
		nf.defers = append([]deferred{}, f.defers...)
		if f.iter != nil {
			ic := *f.iter
			nf.iter = &ic
		}
		n.frames[i] = &nf
	}
	n.cellVal = make(map[*Cell]Value, len(s.cellVal))
	for k, v := range s.cellVal {
		n.cellVal[k] = v
	}
	n.heap = make(map[string]*Term, len(s.heap))
	for k, v := range s.heap {
		n.heap[k] = v
	}
	n.heapT = s.heapT // shared, append-only
	n.pc = append([]*Term{}, s.pc...)
	n.path = append([]string{}, s.path...)
	n.ghostI = map[*ssa.BasicBlock]*Term{}
	for k, v := range s.ghostI {
		n.ghostI[k] = v
	}
	return n
}

// snapshot keeps only what old(...) needs: the heap.
func (s *State) snapshot() *State {
	n := &State{epoch: s.epoch, heapT: s.heapT}
	n.heap = make(map[string]*Term, len(s.heap))
	for k, v := range s.heap {
		n.heap[k] = v
	}
	n.cellVal = s.cellVal
	return n
}

func (s *State) top() *Frame { return s.frames[len(s.frames)-1] }

func (s *State) assume(t *Term) {
	if t == nil || t.IsTrue() {
		return
	}
	if t.IsFalse() {
		s.dead = true
	}
	s.pc = append(s.pc, t)
}

// ---------------------------------------------------------------------------
// heap maps
// ---------------------------------------------------------------------------

func (w *World) heapKey(t types.Type) string {
	t = types.Unalias(t)
	if _, ok := t.Underlying().(*types.Struct); ok {
		return "H:" + w.structName(t)
	}
	if m, ok := t.Underlying().(*types.Map); ok {
		_ = m
	}
	return "H:" + mangleSort(strings.ReplaceAll(types.TypeString(t, func(p *types.Package) string { return p.Name() }), " ", "_"))
}

// heapElemSort is the sort stored per object for pointee type t. Maps are references to a
// heap object holding the abstract map contents.
func (w *World) heapElemSort(t types.Type) string {
	if m, ok := types.Unalias(t).Underlying().(*types.Map); ok {
		return w.mapValSort(m)
	}
	return w.SortOf(t)
}

func (x *Exec) heapMap(s *State, t types.Type) (string, *Term) {
	k := x.w.heapKey(t)
	if m, ok := types.Unalias(t).Underlying().(*types.Map); ok {
		k = "HM:" + mangleSort(x.w.mapValSort(m))
	}
	if h, ok := s.heap[k]; ok {
		return k, h
	}
	if s.heapT != nil {
		s.heapT[k] = t
	}
	h := Var(fmt.Sprintf("%s@e%d", k, s.epoch), ArraySort(SInt, x.w.heapElemSort(t)))
	s.heap[k] = h
	return k, h
}

func (x *Exec) heapRead(s *State, ref *Term, t types.Type) *Term {
	_, h := x.heapMap(s, t)
	return Select(h, ref)
}

func (x *Exec) heapWrite(s *State, ref *Term, t types.Type, v *Term) {
	k, h := x.heapMap(s, t)
	nh := Store(h, ref, v)
	if len(nh.Key()) > 4000 {
		nm := x.w.Reg.Fresh(k+"@", nh.Sort)
		s.assume(Eq(nm, nh))
		nh = nm
	}
	s.heap[k] = nh
}

// havocAllHeap forgets every heap map (an unknown callee may have written anything reachable).
func (x *Exec) havocAllHeap(s *State) {
	s.epoch = x.nextEpoch()
	for k := range s.heap {
		delete(s.heap, k)
	}
}

func (x *Exec) nextEpoch() int {
	x.epochCtr++
	return x.epochCtr
}

// allocRef returns a fresh object reference: non-nil, distinct from every earlier allocation on
// this path and from every object that existed at function entry (alloc0 is the entry watermark).
func (x *Exec) allocRef(s *State) *Term {
	s.nalloc++
	return Add(Var("alloc0", SInt), IntT(int64(s.nalloc)))
}

// ---------------------------------------------------------------------------
// locations
// ---------------------------------------------------------------------------

func (x *Exec) readLoc(s *State, l *Loc) Value {
	var root Value
	switch {
	case l.Cell != nil:
		v, ok := s.cellVal[l.Cell]
		if !ok {
			v = x.zeroValue(l.Cell.T)
		}
		root = v
	case l.Ref != nil:
		root = Value{T: l.RootT, Term: x.heapRead(s, l.Ref, l.RootT)}
	default:
		root = Value{T: l.RootT, Term: l.RootVal}
	}
	if len(l.Path) == 0 {
		return root
	}
	if root.Term == nil {
		panic(x.subsetf("read through a path of a non-term value (%s)", l.RootT))
	}
	t := root.Term
	ty := l.RootT
	for _, st := range l.Path {
		if st.IsIdx {
			t = Select(t, st.Idx)
		} else {
			fs := x.w.StructFields(ty)
			t = x.w.Reg.Apply(fs[st.Field].Sel, t)
		}
		ty = st.FT
	}
	return Value{T: ty, Term: t}
}

func (x *Exec) updatePath(root *Term, rootT types.Type, path []PathStep, v *Term) *Term {
	if len(path) == 0 {
		return v
	}
	st := path[0]
	if st.IsIdx {
		inner := x.updatePath(Select(root, st.Idx), st.FT, path[1:], v)
		return Store(root, st.Idx, inner)
	}
	fs := x.w.StructFields(rootT)
	args := make([]*Term, len(fs))
	for i, f := range fs {
		cur := x.w.Reg.Apply(f.Sel, root)
		if i == st.Field {
			args[i] = x.updatePath(cur, st.FT, path[1:], v)
		} else {
			args[i] = cur
		}
	}
	return x.w.MkStruct(rootT, args)
}

func (x *Exec) writeLoc(s *State, l *Loc, v Value) {
	switch {
	case l.Cell != nil:
		if len(l.Path) == 0 {
			s.cellVal[l.Cell] = v
			return
		}
		cur, ok := s.cellVal[l.Cell]
		if !ok {
			cur = x.zeroValue(l.Cell.T)
		}
		if cur.Term == nil || v.Term == nil {
			panic(x.subsetf("store of a non-term value into a component of a local (%s)", l.Cell.T))
		}
		s.cellVal[l.Cell] = Value{T: l.Cell.T, Term: x.updatePath(cur.Term, l.Cell.T, l.Path, v.Term)}
	case l.Ref != nil:
		vt := x.termOf(s, v)
		cur := x.heapRead(s, l.Ref, l.RootT)
		nv := x.updatePath(cur, l.RootT, l.Path, vt)
		if l.Cond != nil {
			nv = Ite(l.Cond, nv, cur)
		}
		x.heapWrite(s, l.Ref, l.RootT, nv)
	default:
		panic(x.subsetf("store through a slice element pointer (slices are modelled as immutable sequences)"))
	}
}

// termOf converts a value to an SMT term where possible (closures and interior pointers cannot be).
func (x *Exec) termOf(s *State, v Value) *Term {
	if v.Term != nil {
		return v.Term
	}
	if v.Loc != nil {
		if v.Loc.Ref != nil && len(v.Loc.Path) == 0 {
			return v.Loc.Ref
		}
		// pointer to a local or interior pointer: give it an opaque identity
		id := x.locIdent(v.Loc)
		return id
	}
	if v.Clo != nil || v.Fn != nil {
		return x.funcIdent(v)
	}
	if v.Global != nil {
		return Var("gaddr:"+v.Global.String(), SInt)
	}
	panic(x.subsetf("value of type %s has no SMT representation", v.T))
}

func (x *Exec) locIdent(l *Loc) *Term {
	k := ""
	if l.Cell != nil {
		k = fmt.Sprintf("cell%d", l.Cell.ID)
	} else if l.Ref != nil {
		k = l.Ref.Key()
	} else {
		k = "val"
	}
	for _, p := range l.Path {
		if p.IsIdx {
			k += "[" + p.Idx.Key() + "]"
		} else {
			k += fmt.Sprintf(".%d", p.Field)
		}
	}
	if t, ok := x.locIDs[k]; ok {
		return t
	}
	t := Var(fmt.Sprintf("locaddr!%d", len(x.locIDs)), SInt)
	x.locIDs[k] = t
	x.locBack[t.Name] = l
	return t
}

func (x *Exec) funcIdent(v Value) *Term {
	var k string
	if v.Fn != nil {
		k = "fn:" + v.Fn.String()
	} else {
		k = fmt.Sprintf("clo:%p", v.Clo)
	}
	if t, ok := x.locIDs[k]; ok {
		return t
	}
	t := Var(fmt.Sprintf("funcval!%d", len(x.locIDs)), SInt)
	x.locIDs[k] = t
	if v.Clo != nil {
		x.cloBack[t.Name] = v.Clo
	}
	return t
}

func (x *Exec) zeroValue(t types.Type) Value {
	return Value{T: t, Term: x.w.ZeroTerm(t)}
}

// freshValue creates an unconstrained value of type t (with integer range facts assumed).
func (x *Exec) freshValue(s *State, t types.Type, hint string) Value {
	if tup, ok := t.(*types.Tuple); ok {
		var vs []Value
		for i := 0; i < tup.Len(); i++ {
			vs = append(vs, x.freshValue(s, tup.At(i).Type(), fmt.Sprintf("%s.%d", hint, i)))
		}
		return Value{T: t, Tup: vs}
	}
	c := x.w.Reg.Fresh(hint, x.w.SortOf(t))
	if f := RangeFact(t, c); f != nil {
		s.assume(f)
	}
	return Value{T: t, Term: c}
}

type subsetErr struct{ msg string }

func (e subsetErr) Error() string { return e.msg }

func (x *Exec) subsetf(format string, a ...interface{}) subsetErr {
	return subsetErr{fmt.Sprintf(format, a...)}
}
