package main

// Symbolic state: values, locations, cells, heap, frames.

import (
	"fmt"
	"go/types"
	"strings"

	"golang.org/x/tools/go/ssa"
)

type Closure struct {
	Fn   *ssa.Function
	Bind []Value
}

type Value struct {
	T       types.Type
	Term    *Term
	Loc     *Loc
	Clo     *Closure
	Tup     []Value
	Fn      *ssa.Function
	Builtin *ssa.Builtin
	Global  *ssa.Global
}

func (v Value) IsTerm() bool { return v.Term != nil }

type Cell struct {
	ID   int
	T    types.Type
	Name string
}

type PathStep struct {
	Field int   // index into World.StructFields (ghost fields included); -1 when IsIdx
	Idx   *Term // array index
	IsIdx bool
	FT    types.Type // type of the selected component
}

// Loc is a meta-level address: a root (cell, heap object, immutable value or global) plus a path.
type Loc struct {
	Cell    *Cell
	Ref     *Term // heap object address (Int)
	RootT   types.Type
	RootVal *Term // immutable root (slice element reads): value of type RootT
	Path    []PathStep
	Cond    *Term // conditional location (writes apply only when Cond holds)
}

func (l *Loc) Type() types.Type {
	if len(l.Path) == 0 {
		return l.RootT
	}
	return l.Path[len(l.Path)-1].FT
}

func (l *Loc) extend(s PathStep) *Loc {
	n := *l
	n.Path = append(append([]PathStep{}, l.Path...), s)
	return &n
}

type deferred struct {
	call *ssa.CallCommon
	fn   Value
	args []Value
	pos  ssa.Instruction
}

type Frame struct {
	fn       *ssa.Function
	vals     map[ssa.Value]Value
	cells    map[*ssa.Alloc]*Cell
	block    *ssa.BasicBlock
	prev     *ssa.BasicBlock
	ip       int
	defers   []deferred
	freeVars []Value
	params   []Value
	callSite ssa.CallInstruction // in the caller frame (nil for the root frame)
	cut      map[*ssa.BasicBlock]bool
	unroll   map[*ssa.BasicBlock]int
	depth    int
	// iterator handler frames: where to continue when the handler returns
	iter *iterCtx
	// named locals of inlined helpers that have returned into this frame (latest last): clauses may still name them
	retired []retiredLocal
	invSkip map[*ssa.BasicBlock]map[int]bool // invariants dropped at loop entry because they do not bind
}

type retiredLocal struct {
	name string
	typ  string
	ptr  Value
}

type State struct {
	frames    []*Frame
	cellVal   map[*Cell]Value
	heap      map[string]*Term  // heap map name -> current array term
	heapSort  map[string]string // heap array key -> element sort (shared, append-only)
	epoch     int
	pc        []*Term
	nalloc    int
	allocBase *Term    // current allocation watermark base (alloc0 at entry; a fresh symbol after each loop cut)
	path      []string // human-readable trail of decisions
	mu        *Term    // unused
	ghostI    map[*ssa.BasicBlock]*Term
	lastCall  map[string][]Value // bare callee name -> results of its most recent call on this path (lasterr)
	lastArgs  map[string][]Value // same for the arguments (receiver first)
	locked    []*Loc             // mutexes on which this call invoked Lock/RLock (lock-balance obligation at every return)
	trace     []string
	dead      bool
}

func (s *State) clone() *State {
	n := &State{epoch: s.epoch, nalloc: s.nalloc, allocBase: s.allocBase}
	n.frames = make([]*Frame, len(s.frames))
	for i, f := range s.frames {
		nf := *f
		nf.vals = make(map[ssa.Value]Value, len(f.vals))
		for k, v := range f.vals {
			nf.vals[k] = v
		}
		nf.cells = make(map[*ssa.Alloc]*Cell, len(f.cells))
		for k, v := range f.cells {
			nf.cells[k] = v
		}
		nf.cut = map[*ssa.BasicBlock]bool{}
		for k, v := range f.cut {
			nf.cut[k] = v
		}
		nf.unroll = map[*ssa.BasicBlock]int{}
		for k, v := range f.unroll {
			nf.unroll[k] = v
		}
		nf.defers = append([]deferred{}, f.defers...)
		if f.iter != nil {
			ic := *f.iter
			nf.iter = &ic
		}
		n.frames[i] = &nf
	}
	n.cellVal = make(map[*Cell]Value, len(s.cellVal))
	for k, v := range s.cellVal {
		n.cellVal[k] = v
	}
	n.heap = make(map[string]*Term, len(s.heap))
	for k, v := range s.heap {
		n.heap[k] = v
	}
	n.heapSort = s.heapSort // shared, append-only
	n.pc = append([]*Term{}, s.pc...)
	n.path = append([]string{}, s.path...)
	n.ghostI = map[*ssa.BasicBlock]*Term{}
	for k, v := range s.ghostI {
		n.ghostI[k] = v
	}
	if s.lastCall != nil {
		n.lastCall = make(map[string][]Value, len(s.lastCall))
		for k, v := range s.lastCall {
			n.lastCall[k] = v
		}
	}
	n.locked = append([]*Loc{}, s.locked...)
	if s.lastArgs != nil {
		n.lastArgs = make(map[string][]Value, len(s.lastArgs))
		for k, v := range s.lastArgs {
			n.lastArgs[k] = v
		}
	}
	return n
}

// snapshot keeps only what old(...) needs: the heap.
func (s *State) snapshot() *State {
	n := &State{epoch: s.epoch, heapSort: s.heapSort}
	n.heap = make(map[string]*Term, len(s.heap))
	for k, v := range s.heap {
		n.heap[k] = v
	}
	n.cellVal = s.cellVal
	return n
}

func (s *State) base() *Term {
	if s.allocBase == nil {
		return Var("alloc0", SInt)
	}
	return s.allocBase
}

// watermark: every object that exists now has a reference <= watermark.
func (s *State) watermark() *Term { return Add(s.base(), IntT(int64(s.nalloc))) }

// rebaseAlloc is called when a loop is cut: an unknown number of iterations may have allocated objects, so
// later allocations are numbered from a fresh symbolic base above the current watermark.
func (x *Exec) rebaseAlloc(s *State) {
	nb := x.w.Reg.Fresh("allocL", SInt)
	s.assume(Ge(nb, s.watermark()))
	s.allocBase = nb
	s.nalloc = 0
}

func (s *State) top() *Frame { return s.frames[len(s.frames)-1] }

func (s *State) assume(t *Term) {
	if t == nil || t.IsTrue() {
		return
	}
	if t.IsFalse() {
		s.dead = true
	}
	s.pc = append(s.pc, t)
}

// ---------------------------------------------------------------------------
// heap maps
// ---------------------------------------------------------------------------

func (w *World) heapKey(t types.Type) string {
	t = types.Unalias(t)
	if _, ok := t.Underlying().(*types.Struct); ok {
		return "H:" + w.structName(t)
	}
	if m, ok := t.Underlying().(*types.Map); ok {
		_ = m
	}
	return "H:" + mangleSort(strings.ReplaceAll(types.TypeString(t, func(p *types.Package) string { return p.Name() }), " ", "_"))
}

// heapElemSort is the sort stored per object for pointee type t. Maps are references to a
// heap object holding the abstract map contents.
func (w *World) heapElemSort(t types.Type) string {
	if m, ok := types.Unalias(t).Underlying().(*types.Map); ok {
		return w.mapValSort(m)
	}
	return w.SortOf(t)
}

// Heap layout (Burstall-Bornat): one SMT array per (struct type, top-level field) "H:T.f" and one array per
// non-struct pointee type "H:T" (cells, map contents). Writing or forgetting one field never touches the others,
// so frames are syntactic.
func (x *Exec) heapArr(s *State, key string, elemSort string) *Term {
	if h, ok := s.heap[key]; ok {
		return h
	}
	if s.heapSort != nil {
		s.heapSort[key] = elemSort
	}
	h := Var(fmt.Sprintf("%s@e%d", key, s.epoch), ArraySort(SInt, elemSort))
	s.heap[key] = h
	return h
}

func (x *Exec) isStructPointee(t types.Type) bool {
	_, ok := types.Unalias(t).Underlying().(*types.Struct)
	return ok
}

func (x *Exec) fieldKey(t types.Type, i int) string {
	return fmt.Sprintf("%s.%d", x.w.heapKey(t), i)
}

func (x *Exec) cellKey(t types.Type) string {
	if m, ok := types.Unalias(t).Underlying().(*types.Map); ok {
		return "HM:" + mangleSort(x.w.mapValSort(m))
	}
	return x.w.heapKey(t)
}

func (x *Exec) heapRead(s *State, ref *Term, t types.Type) *Term {
	if x.isStructPointee(t) {
		fs := x.w.StructFields(t)
		args := make([]*Term, len(fs))
		for i, f := range fs {
			args[i] = Select(x.heapArr(s, x.fieldKey(t, i), x.w.SortOf(f.Type)), ref)
		}
		return x.w.MkStruct(t, args)
	}
	return Select(x.heapArr(s, x.cellKey(t), x.w.heapElemSort(t)), ref)
}

func (x *Exec) heapWrite(s *State, ref *Term, t types.Type, v *Term) {
	if x.isStructPointee(t) {
		for i, f := range x.w.StructFields(t) {
			key := x.fieldKey(t, i)
			cur := x.heapArr(s, key, x.w.SortOf(f.Type))
			nv := x.w.Reg.Apply(f.Sel, v)
			if nv == Select(cur, ref) {
				continue // unchanged field
			}
			s.heap[key] = Store(cur, ref, nv)
		}
		return
	}
	key := x.cellKey(t)
	cur := x.heapArr(s, key, x.w.heapElemSort(t))
	s.heap[key] = Store(cur, ref, v)
}

// havocAllHeap forgets every heap map (an unknown callee may have written anything reachable).
func (x *Exec) havocAllHeap(s *State) {
	s.epoch = x.nextEpoch()
	for k := range s.heap {
		delete(s.heap, k)
	}
}

func (x *Exec) nextEpoch() int {
	x.epochCtr++
	return x.epochCtr
}

// allocRef returns a fresh object reference: non-nil, distinct from every earlier allocation on
// this path and from every object that existed at function entry (alloc0 is the entry watermark).
func (x *Exec) allocRef(s *State) *Term {
	s.nalloc++
	return Add(s.base(), IntT(int64(s.nalloc)))
}

// ---------------------------------------------------------------------------
// locations
// ---------------------------------------------------------------------------

func (x *Exec) readLoc(s *State, l *Loc) Value {
	var root Value
	switch {
	case l.Cell != nil:
		v, ok := s.cellVal[l.Cell]
		if !ok {
			v = x.zeroValue(l.Cell.T)
		}
		root = v
	case l.Ref != nil:
		root = Value{T: l.RootT, Term: x.heapRead(s, l.Ref, l.RootT)}
	default:
		root = Value{T: l.RootT, Term: l.RootVal}
	}
	if len(l.Path) == 0 {
		return root
	}
	if root.Term == nil {
		panic(x.subsetf("read through a path of a non-term value (%s)", l.RootT))
	}
	t := root.Term
	ty := l.RootT
	for _, st := range l.Path {
		if st.IsIdx {
			t = Select(t, st.Idx)
		} else {
			fs := x.w.StructFields(ty)
			t = x.w.Reg.Apply(fs[st.Field].Sel, t)
		}
		ty = st.FT
	}
	return Value{T: ty, Term: t}
}

func (x *Exec) updatePath(root *Term, rootT types.Type, path []PathStep, v *Term) *Term {
	if len(path) == 0 {
		return v
	}
	st := path[0]
	if st.IsIdx {
		inner := x.updatePath(Select(root, st.Idx), st.FT, path[1:], v)
		return Store(root, st.Idx, inner)
	}
	fs := x.w.StructFields(rootT)
	args := make([]*Term, len(fs))
	for i, f := range fs {
		cur := x.w.Reg.Apply(f.Sel, root)
		if i == st.Field {
			args[i] = x.updatePath(cur, st.FT, path[1:], v)
		} else {
			args[i] = cur
		}
	}
	return x.w.MkStruct(rootT, args)
}

func (x *Exec) writeLoc(s *State, l *Loc, v Value) {
	switch {
	case l.Cell != nil:
		if len(l.Path) == 0 {
			s.cellVal[l.Cell] = v
			return
		}
		cur, ok := s.cellVal[l.Cell]
		if !ok {
			cur = x.zeroValue(l.Cell.T)
		}
		if cur.Term == nil || v.Term == nil {
			panic(x.subsetf("store of a non-term value into a component of a local (%s)", l.Cell.T))
		}
		s.cellVal[l.Cell] = Value{T: l.Cell.T, Term: x.updatePath(cur.Term, l.Cell.T, l.Path, v.Term)}
	case l.Ref != nil:
		vt := x.termOf(s, v)
		cur := x.heapRead(s, l.Ref, l.RootT)
		nv := x.updatePath(cur, l.RootT, l.Path, vt)
		if l.Cond != nil {
			nv = Ite(l.Cond, nv, cur)
		}
		x.heapWrite(s, l.Ref, l.RootT, nv)
	default:
		panic(x.subsetf("store through a slice element pointer (slices are modelled as immutable sequences)"))
	}
}

// termOf converts a value to an SMT term where possible (closures and interior pointers cannot be).
func (x *Exec) termOf(s *State, v Value) *Term {
	if v.Term != nil {
		return v.Term
	}
	if v.Loc != nil {
		if v.Loc.Ref != nil && len(v.Loc.Path) == 0 {
			return v.Loc.Ref
		}
		// pointer to a local or interior pointer: give it an opaque identity
		id := x.locIdent(v.Loc)
		return id
	}
	if v.Clo != nil || v.Fn != nil {
		return x.funcIdent(v)
	}
	if v.Global != nil {
		return Var("gaddr:"+v.Global.String(), SInt)
	}
	panic(x.subsetf("value of type %s has no SMT representation", v.T))
}

func (x *Exec) locIdent(l *Loc) *Term {
	k := ""
	if l.Cell != nil {
		k = fmt.Sprintf("cell%d", l.Cell.ID)
	} else if l.Ref != nil {
		k = l.Ref.Key()
	} else {
		k = "val"
	}
	for _, p := range l.Path {
		if p.IsIdx {
			k += "[" + p.Idx.Key() + "]"
		} else {
			k += fmt.Sprintf(".%d", p.Field)
		}
	}
	if t, ok := x.locIDs[k]; ok {
		return t
	}
	t := Var(fmt.Sprintf("locaddr!%d", len(x.locIDs)), SInt)
	x.locIDs[k] = t
	x.locBack[t.Name] = l
	return t
}

func (x *Exec) funcIdent(v Value) *Term {
	var k string
	if v.Fn != nil {
		k = "fn:" + v.Fn.String()
	} else {
		k = fmt.Sprintf("clo:%p", v.Clo)
	}
	if t, ok := x.locIDs[k]; ok {
		return t
	}
	t := Var(fmt.Sprintf("funcval!%d", len(x.locIDs)), SInt)
	x.locIDs[k] = t
	if v.Clo != nil {
		x.cloBack[t.Name] = v.Clo
	}
	return t
}

func (x *Exec) zeroValue(t types.Type) Value {
	return Value{T: t, Term: x.w.ZeroTerm(t)}
}

// freshValue creates an unconstrained value of type t (with integer range facts assumed).
func (x *Exec) freshValue(s *State, t types.Type, hint string) Value {
	if tup, ok := t.(*types.Tuple); ok {
		var vs []Value
		for i := 0; i < tup.Len(); i++ {
			vs = append(vs, x.freshValue(s, tup.At(i).Type(), fmt.Sprintf("%s.%d", hint, i)))
		}
		return Value{T: t, Tup: vs}
	}
	c := x.w.Reg.Fresh(hint, x.w.SortOf(t))
	if f := RangeFact(t, c); f != nil {
		s.assume(f)
	}
	return Value{T: t, Term: c}
}

type subsetErr struct{ msg string }

func (e subsetErr) Error() string { return e.msg }

func (x *Exec) subsetf(format string, a ...interface{}) subsetErr {
	return subsetErr{fmt.Sprintf(format, a...)}
}

// substState applies a substitution of havoc variables to everything the state holds.
func (x *Exec) substState(s *State, m map[string]*Term) {
	for k, h := range s.heap {
		s.heap[k] = Subst(h, m)
	}
	for c, v := range s.cellVal {
		if v.Term != nil {
			nv := v
			nv.Term = Subst(v.Term, m)
			s.cellVal[c] = nv
		}
	}
	for i, p := range s.pc {
		s.pc[i] = Subst(p, m)
	}
}

// learn assumes c and propagates what follows syntactically: implications in the path condition whose
// antecedent is c are discharged, and equations `v == T` for call-result / havoc variables v are
// applied as substitutions (keeps references to conditionally fresh objects concrete).
func (x *Exec) learn(s *State, c *Term) {
	s.assume(c)
	if s.dead {
		return
	}
	derivedOf := func() []*Term {
		var out []*Term
		// the assumed condition may itself have been rewritten by earlier substitutions: match on the last pc entry
		cur := s.pc[len(s.pc)-1]
		out = append(out, conjuncts(cur)...)
		key := cur.Key()
		for _, p := range s.pc {
			if p.K == KApp && p.Name == "=>" && p.Args[0].Key() == key {
				out = append(out, conjuncts(p.Args[1])...)
			}
		}
		return out
	}
	for round := 0; round < 8; round++ {
		changed := false
		for _, d := range derivedOf() {
			if !(d.K == KApp && d.Name == "=" && len(d.Args) == 2) {
				continue
			}
			for _, ord := range [][2]int{{0, 1}, {1, 0}} {
				v, e := d.Args[ord[0]], d.Args[ord[1]]
				if v.K == KVar && (strings.HasPrefix(v.Name, "ret.") || strings.HasPrefix(v.Name, "havoc")) && !contains(e, v.Name) && isGroundRef(e) {
					m := map[string]*Term{v.Name: e}
					last := s.pc[len(s.pc)-1]
					x.substState(s, m)
					s.pc[len(s.pc)-1] = last // keep the branch condition itself as assumed
					top := s.top()
					for k, val := range top.vals {
						if val.Term != nil && contains(val.Term, v.Name) {
							val.Term = Subst(val.Term, m)
							top.vals[k] = val
						}
					}
					s.assume(d)
					// re-establish the branch condition as the last entry for the next round
					s.pc = append(s.pc, last)
					changed = true
					break
				}
			}
			if changed {
				break
			}
		}
		if !changed {
			break
		}
	}
	for _, d := range derivedOf() {
		x.materialize(s, d)
	}
}

// isGroundRef: alloc0 + k or a literal (the only right-hand sides worth propagating eagerly)
func isGroundRef(t *Term) bool {
	if t.IsLit() {
		return true
	}
	return t.K == KApp && t.Name == "+" && len(t.Args) == 2 && t.Args[0].K == KVar &&
		(t.Args[0].Name == "alloc0" || strings.HasPrefix(t.Args[0].Name, "allocL!")) && t.Args[1].IsLit()
}

// materialize: an assumed fact `A[i] == v` about a base heap array A (a variable) with a concrete reference i
// is written into the heap terms as store(A, i, v), so that later reads fold syntactically.
func (x *Exec) materialize(s *State, t *Term) {
	for _, c := range conjuncts(t) {
		if !(c.K == KApp && c.Name == "=" && len(c.Args) == 2) {
			// boolean-sorted array reads appear as the atom itself / its negation
			if c.K == KApp && c.Name == "select" && c.Sort == SBool {
				x.materializeEq(s, c, TTrue)
			} else if c.K == KApp && c.Name == "not" && c.Args[0].K == KApp && c.Args[0].Name == "select" {
				x.materializeEq(s, c.Args[0], TFalse)
			}
			continue
		}
		a, b := c.Args[0], c.Args[1]
		if a.K == KApp && a.Name == "select" {
			x.materializeEq(s, a, b)
		} else if b.K == KApp && b.Name == "select" {
			x.materializeEq(s, b, a)
		}
	}
}

func (x *Exec) materializeEq(s *State, sel *Term, v *Term) {
	arr, idx := sel.Args[0], sel.Args[1]
	if arr.K != KVar || !isGroundRef(idx) || contains(v, arr.Name) {
		return
	}
	if !(v.IsLit() || v.K == KBool || isGroundRef(v) || v.K == KVar || v.K == KApp && len(v.Args) == 0) {
		return
	}
	m := map[string]*Term{arr.Name: Store(arr, idx, v)}
	for k, h := range s.heap {
		if contains(h, arr.Name) {
			s.heap[k] = Subst(h, m)
		}
	}
}

// replaceTerm replaces every occurrence of the term `from` held in cells, registers and the heap by `to`.
func (x *Exec) replaceTerm(s *State, from, to *Term) {
	memo := map[int]*Term{}
	var rep func(t *Term) *Term
	rep = func(t *Term) *Term {
		if t == from {
			return to
		}
		if t.K != KApp {
			return t
		}
		if r, ok := memo[t.id]; ok {
			return r
		}
		changed := false
		na := make([]*Term, len(t.Args))
		for i, a := range t.Args {
			na[i] = rep(a)
			if na[i] != a {
				changed = true
			}
		}
		r := t
		if changed {
			r = rebuild(t, na)
		}
		memo[t.id] = r
		return r
	}
	for c, v := range s.cellVal {
		if v.Term != nil {
			nv := v
			nv.Term = rep(v.Term)
			s.cellVal[c] = nv
		}
	}
	for k, h := range s.heap {
		s.heap[k] = rep(h)
	}
	for _, f := range s.frames {
		for k, v := range f.vals {
			if v.Term != nil {
				if nt := rep(v.Term); nt != v.Term {
					v.Term = nt
					f.vals[k] = v
				}
			}
		}
	}
}
