package main

// Thorough tier: conformance tests of the assumed dependency contracts that a property relies on
// (/verif/conformance/conformance_test.go.txt, injected into the repository's root package with `go test -overlay`).
// They are tests of assumptions, not proof obligations; the evidence lists them separately.

import (
	"context"
	"encoding/json"
	"fmt"
	"os"
	"os/exec"
	"path/filepath"
	"regexp"
	"strings"
	"time"
)

type confResult struct {
	Ran    []string `json:"ran"`
	Failed []string `json:"failed"`
	Note   string   `json:"note,omitempty"`
	// filled at evidence time from conformance/covers.json: assumed contract -> tests of this run that sample it
	SampledBy  map[string][]string `json:"assumed_contracts_sampled_by,omitempty"`
	NotSampled []string            `json:"assumed_contracts_not_sampled,omitempty"`
	Output     string              `json:"output,omitempty"`
}

func runConformance(o *Options, prop string) *confResult {
	res := &confResult{}
	src := filepath.Join(o.extspec, "..", "..", "conformance", "conformance_test.go.txt")
	if _, err := os.Stat(src); err != nil {
		res.Note = "no conformance suite found at " + src
		return res
	}
	dir := filepath.Join(o.verif, "out", "conformance")
	os.MkdirAll(dir, 0o755)
	ov := map[string]map[string]string{"Replace": {filepath.Join(o.repo, "zz_verif_conformance_test.go"): src}}
	b, _ := json.Marshal(ov)
	ovPath := filepath.Join(dir, prop+".overlay.json")
	os.WriteFile(ovPath, b, 0o644)
	ctx, cancel := context.WithTimeout(context.Background(), 300*time.Second)
	defer cancel()
	cmd := exec.CommandContext(ctx, "go", "test", "-overlay", ovPath, "-vet=off", "-count=1", "-timeout", "240s", "-v", "-run", "^TestVerifConf_.*"+prop+"_", ".")
	cmd.Dir = o.repo
	cmd.Env = append(os.Environ(), "GOFLAGS=-mod=mod", "GOPROXY=off", "GOSUMDB=off", "GOTOOLCHAIN=local")
	out, err := cmd.CombinedOutput()
	text := string(out)
	for _, m := range regexp.MustCompile(`(?m)^--- (PASS|FAIL): (TestVerifConf_\S+)`).FindAllStringSubmatch(text, -1) {
		res.Ran = append(res.Ran, m[2])
		if m[1] == "FAIL" {
			res.Failed = append(res.Failed, m[2])
		}
	}
	if err != nil && len(res.Failed) == 0 && len(res.Ran) == 0 && !strings.Contains(text, "no tests to run") {
		res.Note = "the conformance suite did not build or run"
		res.Failed = append(res.Failed, "(build)")
	}
	if len(res.Failed) > 0 {
		if len(text) > 4000 {
			text = text[len(text)-4000:]
		}
		res.Output = text
	}
	if len(res.Ran) == 0 && res.Note == "" {
		res.Note = "no conformance test is tagged with " + prop
	}
	return res
}

// relate records, for the assumed contracts a run used, which of the tests that ran sample them
// (conformance/covers.json: test name suffix -> assumed contracts) and which are sampled by none.
func (c *confResult) relate(o *Options, used []string) {
	if c == nil {
		return
	}
	b, err := os.ReadFile(filepath.Join(o.extspec, "..", "..", "conformance", "covers.json"))
	if err != nil {
		return
	}
	covers := map[string][]string{}
	if json.Unmarshal(b, &covers) != nil {
		return
	}
	c.SampledBy = map[string][]string{}
	for _, t := range c.Ran {
		failed := false
		for _, f := range c.Failed {
			failed = failed || f == t
		}
		if failed {
			continue
		}
		suffix := t[strings.LastIndex(t, "_")+1:]
		for _, k := range covers[suffix] {
			c.SampledBy[k] = append(c.SampledBy[k], suffix)
		}
	}
	for _, u := range used {
		if len(c.SampledBy[u]) == 0 {
			c.NotSampled = append(c.NotSampled, u)
		}
	}
	for k := range c.SampledBy {
		keep := false
		for _, u := range used {
			keep = keep || u == k
		}
		if !keep {
			delete(c.SampledBy, k)
		}
	}
}

func (c *confResult) summary() string {
	if c == nil {
		return "not run in the quick tier"
	}
	return fmt.Sprintf("%d run, %d failed", len(c.Ran), len(c.Failed))
}
