package main

// Consistency of the background theory: the universal axioms for slices, strings and maps are checked to be VALID in
// a reference model written with SMT definitions (slice = nil flag + length + total array, string = SMT-LIB String,
// map = pair of arrays), i.e. for every axiom A the solver must refute (not A) under the definitions. An axiom set
// that holds in a model is consistent. `govc axiom-model` prints the verdict; the thorough tier runs it on every check.

import (
	"fmt"
	"go/types"
	"os"
	"os/exec"
	"path/filepath"
	"strings"
)

func axiomModelScript(w *World) (string, []string) {
	r := w.Reg
	elem := SInt
	sl := w.sliceSort(elem) // Sl!Int
	base := unsym(sl)       // Sl:Int
	f := func(n string) string { return sym(n + ":" + base) }
	var sb strings.Builder
	sb.WriteString("(set-option :produce-models false)\n")
	// slices
	fmt.Fprintf(&sb, "(declare-datatypes ((%s 0)) (((mkSl$ (isnil$ Bool) (n$ Int) (f$ (Array Int %s))))))\n", sl, elem)
	fmt.Fprintf(&sb, "(define-fun %s ((s %s)) Int (ite (>= (n$ s) 0) (n$ s) 0))\n", f("len"), sl)
	fmt.Fprintf(&sb, "(define-fun %s ((s %s) (i Int)) %s (select (f$ s) i))\n", f("at"), sl, elem)
	fmt.Fprintf(&sb, "(define-fun %s () %s (mkSl$ true 0 ((as const (Array Int %s)) 0)))\n", f("nil"), sl, elem)
	fmt.Fprintf(&sb, "(define-fun %s ((a (Array Int %s)) (lo Int) (hi Int)) %s (mkSl$ false (- hi lo) (lambda ((i Int)) (select a (+ lo i)))))\n", f("mk"), elem, sl)
	fmt.Fprintf(&sb, "(define-fun %s ((s %s) (t %s)) %s (mkSl$ false (+ (%s s) (%s t)) (lambda ((i Int)) (ite (< i (%s s)) (select (f$ s) i) (select (f$ t) (- i (%s s)))))))\n",
		f("app"), sl, sl, sl, f("len"), f("len"), f("len"), f("len"))
	fmt.Fprintf(&sb, "(define-fun %s ((s %s) (lo Int) (hi Int)) %s (mkSl$ false (- hi lo) (lambda ((i Int)) (select (f$ s) (+ lo i)))))\n", f("sub"), sl, sl)
	// strings
	sb.WriteString("(define-sort Str () String)\n(define-fun strlen ((s Str)) Int (str.len s))\n(define-fun strcat ((s Str) (t Str)) Str (str.++ s t))\n")
	emp := r.StrLit("")
	fmt.Fprintf(&sb, "(define-fun %s () Str \"\")\n", emp.String())
	// maps (contents): a pair of arrays
	mp := w.mapValSort(types.NewMap(types.Typ[types.Int], types.Typ[types.Int]))
	mbase := unsym(mp)
	g := func(n string) string { return sym(n + ":" + mbase) }
	fmt.Fprintf(&sb, "(declare-datatypes ((%s 0)) (((mkMp$ (h$ (Array Int Bool)) (g$ (Array Int Int))))))\n", mp)
	fmt.Fprintf(&sb, "(define-fun %s ((m %s) (k Int)) Bool (select (h$ m) k))\n", g("has"), mp)
	fmt.Fprintf(&sb, "(define-fun %s ((m %s) (k Int)) Int (select (g$ m) k))\n", g("get"), mp)
	fmt.Fprintf(&sb, "(define-fun %s ((m %s) (k Int) (v Int)) %s (mkMp$ (store (h$ m) k true) (store (g$ m) k v)))\n", g("put"), mp, mp)
	fmt.Fprintf(&sb, "(define-fun %s () %s (mkMp$ ((as const (Array Int Bool)) false) ((as const (Array Int Int)) 0)))\n", g("empty"), mp)
	var names []string
	for _, ax := range r.axioms {
		if strings.HasPrefix(ax.Name, mbase+".") || strings.HasPrefix(ax.Name, base+".") || strings.HasPrefix(ax.Name, "strlen.") || strings.HasPrefix(ax.Name, "strcat.") {
			names = append(names, ax.Name)
			fmt.Fprintf(&sb, "(push)\n(assert (not %s))\n(check-sat)\n(pop)\n", ax.Body.String())
		}
	}
	return sb.String(), names
}

// runAxiomModel returns (number of axioms, number proved valid in the model, details).
func runAxiomModel(w *World, dir string) (int, int, []string) {
	text, names := axiomModelScript(w)
	os.MkdirAll(dir, 0o755)
	path := filepath.Join(dir, "axiom-model.smt2")
	os.WriteFile(path, []byte(text), 0o644)
	out, _ := exec.Command("z3-new", "-T:60", path).CombinedOutput()
	var lines []string
	for _, l := range strings.Split(string(out), "\n") {
		switch strings.TrimSpace(l) {
		case "sat", "unsat", "unknown", "timeout":
			lines = append(lines, strings.TrimSpace(l))
		}
	}
	ok := 0
	var det []string
	for i, n := range names {
		st := "missing"
		if i < len(lines) {
			st = lines[i]
		}
		if st == "unsat" {
			ok++
		}
		det = append(det, n+"="+map[string]string{"unsat": "valid"}[st]+map[bool]string{true: "", false: st}[st == "unsat"])
	}
	return len(names), ok, det
}

func cmdAxiomModel(args []string) int {
	o, _ := parseOpts(args)
	w, err := loadAll(o)
	if err != nil {
		fmt.Fprintln(os.Stderr, err)
		return 2
	}
	n, ok, det := runAxiomModel(w, filepath.Join(o.verif, "out", "vc"))
	for _, d := range det {
		fmt.Println(" ", d)
	}
	fmt.Printf("%d/%d background axioms valid in the reference model\n", ok, n)
	if ok != n {
		return 1
	}
	return 0
}
