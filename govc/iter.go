package main

import (
	"go/types"

	"golang.org/x/tools/go/ssa"
)

// iterator call-backs (etreeutils.NSFindIterate): see DESIGN.md §2.6. Filled in by iter_impl.go.

var iterSpecKeys = map[string]bool{}

type iterCtx struct {
	spec    *FuncSpec
	key     string
	site    int
	in      ssa.Instruction
	args    []Value
	k       *Term
	handler Value
	lspec   *LoopSpec
}

func (x *Exec) callIterator(s *State, fr *Frame, spec *FuncSpec, key string, args []Value, sig *types.Signature, in ssa.Instruction) ([]Value, bool) {
	panic(x.subsetf("iterator schema not implemented"))
}

func (x *Exec) iterHandlerReturned(s *State, caller *Frame, fr *Frame, rs []Value) bool {
	panic(x.subsetf("iterator schema not implemented"))
}
