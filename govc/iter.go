package main

// Iterator call-backs: etreeutils.NSFindIterate(el, namespace, tag, handler) is a dependency whose
// assumed contract is an iteration schema (DESIGN.md §2.6):
//
//   matches := MatchAt(el, ns, tag, 0 .. NMatch(el, ns, tag)-1)   (ghost sequence fixed at the call)
//   for k in range matches { if e := handler(ctx_k, matches[k]); e != nil {
//        if e == ErrTraversalHalted { return nil }; return e } }
//   return nil            -- plus: at any step the library may return a fresh non-nil error
//
// The engine treats the call as a loop cut whose body is the closure: `iter <n>` clauses of the
// calling function's contract give the invariant (over $k = number of completed visits) and the
// `visit` clauses (facts every successful visit establishes; old(..) = state at the start of that
// visit, $m = the visited element).

import (
	"fmt"
	"go/types"

	"golang.org/x/tools/go/ssa"
)

var iterSpecKeys = map[string]bool{}

type iterCtx struct {
	spec       *FuncSpec
	key        string
	site       int
	in         ssa.Instruction
	args       []Value
	k          *Term
	m          Value
	lspec      *LoopSpec
	visitStart *State
	callerFn   *ssa.Function
}

func (x *Exec) iterEnv(fr *Frame, k *Term, m *Value) map[string]Value {
	env := map[string]Value{}
	if fr.fn == x.top {
		env = x.specEnv(nil)
	}
	env["$k"] = Value{T: intT, Term: k}
	if m != nil {
		env["$m"] = *m
	}
	return env
}

func (x *Exec) iterSpecFor(fr *Frame, ord int) *LoopSpec {
	if fr.fn == x.top {
		return x.spec.Iters[ord]
	}
	if sp := x.w.FuncSpecs[fnKey(fr.fn)]; sp != nil {
		return sp.Iters[ord]
	}
	return nil
}

// iterOrdinal numbers the iterator call sites of a function in source order.
func (x *Exec) iterOrdinal(fn *ssa.Function, in ssa.Instruction) int {
	n := 0
	for _, b := range fn.Blocks {
		for _, j := range b.Instrs {
			if j == in {
				return n
			}
			if ci, ok := j.(ssa.CallInstruction); ok {
				if callee := ci.Common().StaticCallee(); callee != nil && iterSpecKeys[fnKey(callee)] {
					n++
				}
			}
		}
	}
	return -1
}

func (x *Exec) checkIterClauses(s *State, fr *Frame, ord int, cs []*Clause, kind, what string, env map[string]Value, old *State, in ssa.Instruction) {
	fname := shortFn(fnKey(fr.fn))
	ctx := &EvalCtx{x: x, st: s, old: old, env: env, sf: funcHome[x.spec], fr: fr, pos: in.Pos()}
	for ci, c := range cs {
		label := c.Label
		if label == "" {
			label = fmt.Sprintf("i%d", ci)
		}
		g := x.evalBool(ctx, c.Expr)
		tags := c.Tags
		if len(tags) == 0 {
			tags = x.ownerTags
		}
		for k, cj := range conjuncts(g) {
			nm := fmt.Sprintf("iter%d#%s.%s@%s", ord, label, what, fname)
			if k > 0 {
				nm = fmt.Sprintf("iter%d#%s.%d.%s@%s", ord, label, k, what, fname)
			}
			x.oblige(s, kind, nm, cj, tags, in.Pos(), label)
		}
	}
}

func (x *Exec) assumeIterInvariants(s *State, fr *Frame, lspec *LoopSpec, env map[string]Value, in ssa.Instruction) {
	if lspec == nil {
		return
	}
	ctx := &EvalCtx{x: x, st: s, old: x.entry, env: env, sf: funcHome[x.spec], fr: fr, pos: in.Pos()}
	for _, c := range lspec.Invariants {
		s.assume(x.evalBool(ctx, c.Expr))
	}
}

func (x *Exec) ghostApp(name string, sort string, args ...*Term) *Term {
	var sorts []string
	for _, a := range args {
		sorts = append(sorts, a.Sort)
	}
	x.w.Reg.DeclareFunc("ghost:"+name, sorts, sort)
	return x.w.Reg.Apply("ghost:"+name, args...)
}

func (x *Exec) callIterator(s *State, fr *Frame, spec *FuncSpec, key string, args []Value, sig *types.Signature, in ssa.Instruction) ([]Value, bool) {
	if len(args) != 4 {
		panic(x.subsetf("iterator schema expects (el, namespace, tag, handler)"))
	}
	el, ns, tag, h := args[0], args[1], args[2], args[3]
	if h.Clo == nil {
		panic(x.subsetf("iterator handler is not a closure literal known at the call site"))
	}
	ord := x.iterOrdinal(fr.fn, in)
	lspec := x.iterSpecFor(fr, ord)
	if fr.fn == x.top {
		x.iterSeen[ord] = true
	}
	x.safeNil(s, fr, el, in.Pos(), in)
	errT := sig.Results().At(0).Type()
	nmatch := x.ghostApp("NMatch", SInt, el.Term, ns.Term, tag.Term)
	s.assume(Ge(nmatch, IntT(0)))

	// invariant holds before the first visit
	if lspec != nil {
		x.checkIterClauses(s, fr, ord, lspec.Invariants, "inv.init", "init", x.iterEnv(fr, IntT(0), nil), x.entry, in)
	}
	// arbitrary iteration: forget what the handler may write
	m := newModSet()
	var mc *ssa.MakeClosure
	if ci, ok := in.(ssa.CallInstruction); ok {
		for _, a := range ci.Common().Args {
			if c := findClosure(a, 0); c != nil {
				mc = c
			}
		}
	}
	if mc == nil {
		panic(x.subsetf("cannot find the handler closure of the iterator call"))
	}
	x.modsOfClosure(m, fr.fn, mc, map[*ssa.Function]bool{})
	x.havocMods(s, fr, m, map[*ssa.BasicBlock]bool{})
	x.rebaseAlloc(s)
	k := x.w.Reg.Fresh("iter.k", SInt)
	s.assume(And(Le(IntT(0), k), Le(k, nmatch)))
	x.assumeIterInvariants(s, fr, lspec, x.iterEnv(fr, k, nil), in)
	s.path = append(s.path, fmt.Sprintf("iter%d", ord))

	call, _ := in.(*ssa.Call)
	finish := func(st *State, errTerm *Term, tag string) {
		// the iterate call returns errTerm in state st: continue the caller
		f := st.top()
		if call != nil {
			x.bindResult(st, f, call, []Value{{T: errT, Term: errTerm}})
		}
		st.path = append(st.path, tag)
		x.work = append(x.work, st)
	}
	// (a) all matches visited
	sa := x.fork(s)
	sa.assume(Eq(k, nmatch))
	if !sa.dead {
		finish(sa, x.w.INil(), "iter.done")
	}
	// (b) the library gives up with its own error (namespace resolution, traversal limits)
	sb := x.fork(s)
	libErr := x.w.Reg.Fresh("iter.liberr", SIface)
	sb.assume(Neq(libErr, x.w.INil()))
	finish(sb, libErr, "iter.liberr")
	// (c) visit match k
	s.assume(Lt(k, nmatch))
	mt := x.ghostApp("MatchAt", SInt, el.Term, ns.Term, tag.Term, k)
	s.assume(And(Neq(mt, IntT(0)), Le(IntT(0), mt), Le(mt, s.watermark())))
	mv := Value{T: h.Clo.Fn.Params[1].Type(), Term: mt}
	// per-visit element facts of the (assumed) iteration schema
	{
		env := x.bindSpecParams(spec, args, sig)
		env["$m"] = mv
		env["$k"] = Value{T: intT, Term: k}
		ectx := &EvalCtx{x: x, st: s, old: s, env: env, sf: funcHome[spec], atCall: true}
		for _, c := range spec.Ensures {
			s.assume(x.evalBool(ectx, c.Expr))
		}
	}
	ctxv := x.freshValue(s, h.Clo.Fn.Params[0].Type(), "iter.ctx")
	ic := &iterCtx{spec: spec, key: key, site: ord, in: in, args: args, k: k, m: mv, lspec: lspec, visitStart: s.snapshot(), callerFn: fr.fn}
	x.inline(s, fr, h.Clo.Fn, []Value{ctxv, mv}, h.Clo.Bind, in)
	s.top().iter = ic
	s.top().callSite = nil
	return nil, true
}

// iterHandlerReturned is called when a handler frame returns; `caller` is the frame that made the iterator call.
func (x *Exec) iterHandlerReturned(s *State, caller *Frame, hfr *Frame, rs []Value) bool {
	ic := hfr.iter
	errT := rs[0]
	call, _ := ic.in.(*ssa.Call)
	isNil := Eq(errT.Term, x.w.INil())
	// success: visit clauses and invariant at k+1; the path ends (loop cut)
	ok := x.fork(s)
	ok.assume(isNil)
	if !ok.dead {
		ofr := ok.top()
		if ic.lspec != nil {
			env := x.iterEnv(ofr, Add(ic.k, IntT(1)), &ic.m)
			x.checkIterClauses(ok, ofr, ic.site, ic.lspec.Visits, "inv.step", "visit", env, ic.visitStart, ic.in)
			x.checkIterClauses(ok, ofr, ic.site, ic.lspec.Invariants, "inv.step", "step", env, x.entry, ic.in)
		}
	}
	// failure: the iterate call returns nil for the halt sentinel, the handler's error otherwise
	s.assume(Not(isNil))
	if s.dead {
		return false
	}
	halted := Var("g:etreeutils.ErrTraversalHalted", SIface)
	if ic.lspec != nil && ic.lspec.NoHalt != nil {
		// the handler must not stop the traversal early: a nil result of the iteration then means "every match visited"
		tags := ic.lspec.NoHalt.Tags
		if len(tags) == 0 {
			tags = x.ownerTags
		}
		x.oblige(s, "inv.step", fmt.Sprintf("iter%d#nohalt@%s", ic.site, shortFn(fnKey(caller.fn))), Neq(errT.Term, halted), tags, ic.in.Pos(), "nohalt")
	}
	res := Ite(Eq(errT.Term, halted), x.w.INil(), errT.Term)
	if call != nil {
		x.bindResult(s, caller, call, []Value{{T: errT.T, Term: res}})
	}
	s.path = append(s.path, "iter.handler-error")
	return true
}

// findClosure traces a function-typed SSA value back to the MakeClosure that produced it
// (through conversions and a local variable with a single closure store).
func findClosure(v ssa.Value, depth int) *ssa.MakeClosure {
	if depth > 6 {
		return nil
	}
	switch a := v.(type) {
	case *ssa.MakeClosure:
		return a
	case *ssa.ChangeType:
		return findClosure(a.X, depth+1)
	case *ssa.UnOp:
		if al, ok := a.X.(*ssa.Alloc); ok && al.Referrers() != nil {
			var found *ssa.MakeClosure
			n := 0
			for _, r := range *al.Referrers() {
				if st, ok := r.(*ssa.Store); ok && st.Addr == al {
					n++
					found = findClosure(st.Val, depth+1)
				}
			}
			if n == 1 {
				return found
			}
		}
	}
	return nil
}
