package main

// Calls: builtins, inlining of contract-less repo helpers and closures, modular use of contracts.

import (
	"fmt"
	"go/token"
	"go/types"
	"math/big"
	"os"
	"strings"

	"golang.org/x/tools/go/ssa"
)

type BigIntAlias = big.Int

var bigOne = big.NewInt(1)

const maxInlineDepth = 6

func (x *Exec) calleeValue(s *State, fr *Frame, c *ssa.CallCommon) Value {
	if c.IsInvoke() {
		return Value{}
	}
	return x.val(s, fr, c.Value)
}

func (x *Exec) doCall(s *State, fr *Frame, i *ssa.Call) bool {
	c := &i.Call
	var args []Value
	var fnv Value
	if c.IsInvoke() {
		args = append(args, x.val(s, fr, c.Value))
	} else {
		fnv = x.val(s, fr, c.Value)
	}
	for _, a := range c.Args {
		args = append(args, x.val(s, fr, a))
	}
	res, cont := x.callValue(s, fr, fnv, args, c, i, false)
	if !cont {
		return false
	}
	if res != nil {
		x.bindResult(s, fr, i, res)
		for _, r := range res {
			x.notePointer(s, r)
		}
	}
	return true
}

// callValue performs a call. It returns (results, true) when the call completed within this step,
// (nil, true) when a frame was pushed (results are bound on return), or (_, false) when the path ended.
func (x *Exec) callValue(s *State, fr *Frame, fnv Value, args []Value, c *ssa.CallCommon, in ssa.Instruction, deferred bool) ([]Value, bool) {
	// remember the arguments of the most recent call of each named callee (lastarg / called in exit clauses)
	if name := calleeNames(c); len(name) > 0 {
		if s.lastArgs == nil {
			s.lastArgs = map[string][]Value{}
		}
		cp := append([]Value{}, args...)
		for _, n := range name {
			s.lastArgs[n] = cp
		}
	}
	if c.IsInvoke() {
		key := funcKeyOf(c.Method)
		x.safeNilIface(s, fr, args[0], in)
		if spec := x.w.FuncSpecs[key]; spec != nil {
			return x.callSpec(s, fr, spec, key, args, c.Signature(), in)
		}
		return x.callUnknown(s, fr, key, args, c.Signature(), in), true
	}
	switch {
	case fnv.Builtin != nil:
		return x.callBuiltin(s, fr, fnv.Builtin, args, c, in), true
	case fnv.Clo != nil:
		if deferred {
			panic(x.subsetf("deferred closure call"))
		}
		return x.inline(s, fr, fnv.Clo.Fn, args, fnv.Clo.Bind, in)
	case fnv.Fn != nil:
		fn := fnv.Fn
		key := fnKey(fn)
		// synthetic wrappers (value-receiver method called through a pointer etc.) carry no contract:
		// resolve to the declared method
		if fn.Synthetic != "" && fn.Object() != nil {
			key = fnKey(fn)
		}
		spec := x.w.FuncSpecs[key]
		inRepo := fn.Pkg != nil && strings.HasPrefix(fn.Pkg.Pkg.Path(), repoModule) && len(fn.Blocks) > 0
		if spec != nil && !(spec.Inline && inRepo) {
			return x.callSpec(s, fr, spec, key, args, fn.Signature, in)
		}
		if inRepo && !deferred {
			return x.inline(s, fr, fn, args, nil, in)
		}
		return x.callUnknown(s, fr, key, args, fn.Signature, in), true
	default:
		// dynamic call of an unknown function value: deterministic in (callee, arguments), may write anything
		if fnv.Term != nil && fnv.Term.K == KVar {
			if clo, ok := x.cloBack[fnv.Term.Name]; ok {
				return x.inline(s, fr, clo.Fn, args, clo.Bind, in)
			}
		}
		return x.callDynamic(s, fr, fnv, args, c.Signature(), in), true
	}
}

func (x *Exec) safeNilIface(s *State, fr *Frame, recv Value, in ssa.Instruction) {
	if recv.Term != nil && recv.Term.Sort == SIface {
		g := Neq(recv.Term, x.w.INil())
		x.oblSafe(s, fr, "safe.nil", g, in.Pos(), in)
		if x.safety {
			s.assume(g)
		}
	}
}

func (x *Exec) inline(s *State, fr *Frame, fn *ssa.Function, args []Value, bind []Value, in ssa.Instruction) ([]Value, bool) {
	if len(s.frames) > maxInlineDepth {
		panic(x.subsetf("inline depth exceeded at %s", fn))
	}
	for _, f := range s.frames {
		if f.fn == fn {
			panic(x.subsetf("recursive call of %s", fn))
		}
	}
	x.inlined[shortFn(fnKey(fn))] = true
	nf := x.newFrame(fn, nil)
	if ci, ok := in.(ssa.CallInstruction); ok {
		nf.callSite = ci
	}
	nf.freeVars = bind
	for k, p := range fn.Params {
		a := args[k]
		a.T = p.Type()
		nf.vals[p] = a
		nf.params = append(nf.params, a)
	}
	nf.depth = fr.depth + 1
	s.frames = append(s.frames, nf)
	return nil, true
}

func sigResults(sig *types.Signature) []types.Type {
	var out []types.Type
	for i := 0; i < sig.Results().Len(); i++ {
		out = append(out, sig.Results().At(i).Type())
	}
	return out
}

// callUnknown: a callee without contract. Everything reachable may have been written; results are arbitrary.
func (x *Exec) callUnknown(s *State, fr *Frame, key string, args []Value, sig *types.Signature, in ssa.Instruction) []Value {
	x.havocked[shortFn(key)] = true
	// Frame of a callee without contract: the objects reachable from its arguments by type (pointer, field,
	// element, map key/value edges). An interface, function or channel in that closure means "anything".
	var ats []types.Type
	for _, a := range args {
		if a.T != nil {
			ats = append(ats, a.T)
		}
	}
	reach, all := x.w.reachTypes(ats)
	if os.Getenv("GOVC_DEBUG") != "" {
		fmt.Fprintf(os.Stderr, "callUnknown %s args=%d ats=%v reach=%d all=%v frame=%v\n", key, len(args), ats, len(reach), all, x.spec.Frame)
	}
	if ft := x.spec.Frame; len(ft) > 0 && (all || len(reach) > 0) && !x.assignsEverything() {
		// a callee without contract may write anything reachable, including shared state
		x.oblige(s, "frame", fmt.Sprintf("frame@%s#%s", shortFn(fnKey(fr.fn)), x.siteOrdinal(fr.fn, in)), TFalse, ft, in.Pos(),
			"call of "+shortFn(key)+" which has no contract (it may write shared state)")
	}
	if all {
		x.havocAllHeap(s)
	} else {
		x.assumed["uncontracted callees write only objects reachable from their arguments by type (no retained references, no unsafe)"] = true
		m := newModSet()
		for _, t := range reach {
			m.addField(x.w, t, -1)
		}
		x.havocMods(s, fr, m, nil)
	}
	for _, a := range args {
		if a.Loc != nil && a.Loc.Cell != nil {
			s.cellVal[a.Loc.Cell] = x.freshValue(s, a.Loc.Cell.T, "havoc."+a.Loc.Cell.Name)
		}
	}
	var rs []Value
	for k, t := range sigResults(sig) {
		rs = append(rs, x.freshValue(s, t, fmt.Sprintf("ret.%s.%d", lastSeg(key), k)))
	}
	return rs
}

func lastSeg(k string) string {
	if i := strings.LastIndexAny(k, "./)"); i >= 0 && i+1 < len(k) {
		return k[i+1:]
	}
	return k
}

// callDynamic: call through a function value that is not known statically (a func-typed parameter).
// Assumed: the callee is deterministic in its arguments for the returned values; it may write any heap location.
func (x *Exec) callDynamic(s *State, fr *Frame, fnv Value, args []Value, sig *types.Signature, in ssa.Instruction) []Value {
	x.assumed["dynamic-call: func values are deterministic in (callee, arguments)"] = true
	ft := x.termOf(s, fnv)
	x.oblSafe(s, fr, "safe.nil", Neq(ft, IntT(0)), in.Pos(), in)
	x.havocAllHeap(s)
	var rs []Value
	sorts := []string{SInt}
	ts := []*Term{ft}
	for _, a := range args {
		t := x.termOf(s, a)
		sorts = append(sorts, t.Sort)
		ts = append(ts, t)
	}
	for k, t := range sigResults(sig) {
		name := fmt.Sprintf("dyncall%d:%s", k, mangleSort(strings.Join(sorts, ",")))
		x.w.Reg.DeclareFunc(name, sorts, x.w.SortOf(t))
		rs = append(rs, Value{T: t, Term: x.w.Reg.Apply(name, ts...)})
	}
	return rs
}

func (x *Exec) callBuiltin(s *State, fr *Frame, b *ssa.Builtin, args []Value, c *ssa.CallCommon, in ssa.Instruction) []Value {
	switch b.Name() {
	case "len":
		a := args[0]
		switch u := types.Unalias(a.T).Underlying().(type) {
		case *types.Slice:
			ln := x.w.SlLen(a.Term)
			s.assume(Le(ln, lenBound)) // a value that exists at run time: address-space bound (assumption)
			return []Value{{T: types.Typ[types.Int], Term: ln}}
		case *types.Basic:
			ln := x.w.Reg.Apply("strlen", a.Term)
			s.assume(Le(ln, lenBound))
			return []Value{{T: types.Typ[types.Int], Term: ln}}
		case *types.Array:
			return []Value{{T: types.Typ[types.Int], Term: IntT(u.Len())}}
		case *types.Map:
			panic(x.subsetf("len(map)"))
		}
	case "cap":
		panic(x.subsetf("cap() is not modelled (slices carry no capacity)"))
	case "append":
		// Slices are modelled as immutable sequence values (no capacity, no shared backing array). That is faithful as
		// long as an append never writes into the backing array of a slice that is still in use; appending to a
		// re-sliced prefix s[lo:hi] of a slice can do exactly that (hi < cap), so it is outside the modelled subset.
		if sl, ok := c.Args[0].(*ssa.Slice); ok && sl.High != nil && sl.Max == nil {
			if _, isSlice := types.Unalias(sl.X.Type()).Underlying().(*types.Slice); isSlice {
				panic(x.subsetf("append to a re-sliced prefix (x[:k]) may overwrite the elements of x that follow: slices are modelled as values"))
			}
		}
		a, bb := args[0], args[1]
		if isString(bb.T) {
			panic(x.subsetf("append([]byte, string...)"))
		}
		r := x.w.SlApp(a.Term, bb.Term)
		return []Value{{T: a.T, Term: r}}
	case "ssa:wrapnilchk":
		return []Value{args[0]}
	case "ssa:deferstack":
		return []Value{{T: b.Type().(*types.Signature).Results().At(0).Type(), Term: IntT(0)}}
	case "copy", "delete", "print", "println", "recover", "min", "max", "clear", "new", "close":
		panic(x.subsetf("builtin %s is outside the supported subset", b.Name()))
	}
	panic(x.subsetf("builtin %s on %v", b.Name(), args[0].T))
}

// ---------------------------------------------------------------------------
// modular call: assert requires, havoc assigns, assume ensures
// ---------------------------------------------------------------------------

func (x *Exec) bindSpecParams(spec *FuncSpec, args []Value, sig *types.Signature) map[string]Value {
	env := map[string]Value{}
	k := 0
	if spec.Recv != nil {
		if len(args) > 0 {
			env[spec.Recv.Name] = args[0]
			k = 1
		}
	} else if sig.Recv() != nil {
		k = 1
	}
	for i, p := range spec.Params {
		if k+i < len(args) {
			env[p.Name] = args[k+i]
		}
	}
	return env
}

func (x *Exec) callSpec(s *State, fr *Frame, spec *FuncSpec, key string, args []Value, sig *types.Signature, in ssa.Instruction) ([]Value, bool) {
	if spec.External {
		x.assumed[shortFn(key)] = true
	} else if spec.Trusted {
		x.assumed[shortFn(key)+" (in-repo, trusted: body not verified)"] = true
	}
	if iterSpecKeys[key] {
		return x.callIterator(s, fr, spec, key, args, sig, in)
	}
	env := x.bindSpecParams(spec, args, sig)
	sf := funcHome[spec]
	pre := s.snapshot()
	ctx := &EvalCtx{x: x, st: s, old: pre, env: env, sf: sf, atCall: true}
	site := x.siteOrdinal(fr.fn, in)
	callee := shortFn(key)
	// remember the mutexes this call locks: every return must leave them as it found them (a lock leaked on some
	// path makes the next call block for ever -- the one termination hazard that is visible within a single call)
	switch callee {
	case "(*sync.RWMutex).Lock", "(*sync.RWMutex).RLock", "(*sync.Mutex).Lock":
		if len(args) > 0 && (args[0].Loc != nil || args[0].Term != nil) {
			s.locked = append(s.locked, x.ptrLoc(s, args[0]))
		}
	}
	for ci, c := range spec.Requires {
		g := x.evalBool(ctx, c.Expr)
		label := c.Label
		if label == "" {
			label = fmt.Sprintf("r%d", ci)
		}
		tags := c.Tags
		if len(tags) == 0 {
			tags = x.ownerTags
		}
		x.oblige(s, "pre", fmt.Sprintf("pre#%s@%s/%s#%s", label, callee, shortFn(fnKey(fr.fn)), site), g, tags, in.Pos(), label)
		if x.reqActive(c) {
			s.assume(g)
		}
	}
	for ci, c := range spec.Panics {
		g := x.evalBool(ctx, c.Expr)
		label := c.Label
		if label == "" {
			label = fmt.Sprintf("p%d", ci)
		}
		x.oblSafe(s, fr, "safe.extpre."+label+"@"+callee, g, in.Pos(), in)
		if x.safety {
			s.assume(g)
		}
	}
	// havoc: evaluate every location in the pre-state first, then forget them
	var locs []*Loc
	for _, a := range spec.Assigns {
		if a.All {
			x.havocAllHeap(s)
			continue
		}
		if a.Owner != nil {
			t, err := x.w.ResolveType(sf, a.Owner)
			if err != nil {
				panic(specErr{fmt.Sprintf("%s: %v", spec.Pos, err)})
			}
			m := newModSet()
			found := false
			for i, f := range x.w.StructFields(t) {
				if f.Name == a.Field {
					m.addField(x.w, t, i)
					found = true
				}
			}
			if !found {
				panic(specErr{fmt.Sprintf("%s: no field %s in %s", spec.Pos, a.Field, t)})
			}
			if ft := x.spec.Frame; len(ft) > 0 && !x.assignsEverything() && !x.assignsAllOf(t) {
				x.oblige(s, "frame", fmt.Sprintf("frame@%s#%s", shortFn(fnKey(fr.fn)), x.siteOrdinal(fr.fn, in)), TFalse, ft, in.Pos(), "callee assigns a field of every object of a type")
			}
			x.havocMods(s, fr, m, nil)
			continue
		}
		for _, l := range x.evalLocs(ctx, a.Expr) {
			if l.Cond != nil && l.Cond.IsFalse() {
				continue
			}
			locs = append(locs, l)
		}
	}
	havocNames := map[string]bool{}
	for _, l := range locs {
		if l.Ref != nil {
			x.frameCheckCond(s, fr, l, in.Pos(), in)
		}
		fv := x.freshValue(s, l.Type(), "havoc")
		if fv.Term != nil && fv.Term.K == KVar {
			havocNames[fv.Term.Name] = true
		}
		x.writeLoc(s, l, fv)
	}
	// results
	var rs []Value
	rts := sigResults(sig)
	for k, t := range rts {
		name := fmt.Sprintf("r%d", k)
		if k < len(spec.Results) {
			name = spec.Results[k].Name
		}
		var v Value
		isFresh := false
		for _, f := range spec.Fresh {
			if f.Name == name && f.When == nil {
				isFresh = true
			}
		}
		switch {
		case isFresh:
			ref := x.allocRef(s)
			v = Value{T: t, Term: ref}
			// the new object's contents are a havoc value that a defining ensures (`*r == T{...}`) may pin down
			if pt, ok := types.Unalias(t).Underlying().(*types.Pointer); ok {
				if _, isStruct := types.Unalias(pt.Elem()).Underlying().(*types.Struct); isStruct {
					ov := x.freshValue(s, pt.Elem(), "newobj")
					if ov.Term != nil && ov.Term.K == KVar {
						havocNames[ov.Term.Name] = true
					}
					x.heapWrite(s, ref, pt.Elem(), ov.Term)
				}
			}
		case spec.Pure:
			// result is an uninterpreted function of the argument terms
			var sorts []string
			var ts []*Term
			for _, a := range args {
				at := x.termOf(s, a)
				sorts = append(sorts, at.Sort)
				ts = append(ts, at)
			}
			fname := fmt.Sprintf("res%d:%s", k, callee)
			x.w.Reg.DeclareFunc(fname, sorts, x.w.SortOf(t))
			v = Value{T: t, Term: x.w.Reg.Apply(fname, ts...)}
			if f := RangeFact(t, v.Term); f != nil {
				s.assume(f)
			}
		default:
			v = x.freshValue(s, t, "ret."+lastSeg(key)+"."+name)
			// a result pinned down by an ensures of the form `r == term` is replaced by that term
			if v.Term != nil && v.Term.K == KVar {
				havocNames[v.Term.Name] = true
			}
		}
		rs = append(rs, v)
		env[name] = v
	}
	if len(rs) == 1 {
		env["result"] = rs[0]
	}
	for _, f := range spec.Fresh {
		if f.When != nil {
			if v, ok := env[f.Name]; ok && v.Term != nil {
				s.assume(Implies(x.evalBool(ctx, f.When), Eq(v.Term, x.allocRef(s))))
			}
		}
	}
	// Ensures of the form `assigned-location == term` define the new value: substitute it for the havoc
	// variable instead of carrying an equation (keeps builder-style call chains ground and small).
	var post []*Term
	for _, c := range spec.Ensures {
		post = append(post, conjuncts(x.evalBool(ctx, c.Expr))...)
	}
	for changed := true; changed && len(havocNames) > 0; {
		changed = false
		for i, t := range post {
			if t == nil || !(t.K == KApp && t.Name == "=" && len(t.Args) == 2) {
				continue
			}
			for _, ord := range [][2]int{{0, 1}, {1, 0}} {
				v, e := t.Args[ord[0]], t.Args[ord[1]]
				if v.K == KVar && havocNames[v.Name] && !contains(e, v.Name) {
					m := map[string]*Term{v.Name: e}
					x.substState(s, m)
					for j := range post {
						if post[j] != nil {
							post[j] = Subst(post[j], m)
						}
					}
					for k := range rs {
						if rs[k].Term != nil {
							rs[k].Term = Subst(rs[k].Term, m)
						}
					}
					delete(havocNames, v.Name)
					post[i] = nil
					changed = true
					break
				}
			}
			if changed {
				break
			}
		}
	}
	for _, t := range post {
		if t != nil {
			s.assume(t)
			x.materialize(s, t)
		}
	}
	// in-place mutation of slice arguments: every holder of that slice value (same bounds) sees the new contents.
	// Slices with other bounds over the same array are not tracked (stated in the evidence).
	for _, ms := range spec.Mutates {
		oldv, ok := env[ms.Param]
		if !ok || oldv.Term == nil {
			continue
		}
		nv := x.eval(ctx, ms.Expr)
		nt := x.w.Reg.Fresh("mutated", oldv.Term.Sort)
		s.assume(Eq(nt, nv.Term))
		x.replaceTerm(s, oldv.Term, nt)
	}
	return rs, true
}

var _ = token.NoPos

// reachTypes returns the pointee types (struct, cell and map types that own heap arrays) reachable from values of
// the given types, and all=true when the closure contains an interface, function or channel type (dynamic types
// unknown: anything may be reached).
func (w *World) reachTypes(ts []types.Type) ([]types.Type, bool) {
	seen := map[string]bool{}
	var out []types.Type
	all := false
	var walk func(t types.Type, pointee bool)
	walk = func(t types.Type, pointee bool) {
		if all {
			return
		}
		t = types.Unalias(t)
		id := types.TypeString(t, nil)
		if pointee {
			id = "@pointee " + id // (not "*": that would collide with the id of the pointer type itself)
		}
		if seen[id] {
			return
		}
		seen[id] = true
		if pointee {
			out = append(out, t)
		}
		switch u := t.Underlying().(type) {
		case *types.Basic:
			if u.Kind() == types.UnsafePointer {
				all = true
			}
		case *types.Pointer:
			walk(u.Elem(), true)
		case *types.Struct:
			for i := 0; i < u.NumFields(); i++ {
				walk(u.Field(i).Type(), false)
			}
		case *types.Slice:
			walk(u.Elem(), false)
		case *types.Array:
			walk(u.Elem(), false)
		case *types.Map:
			if !pointee {
				walk(t, true)
				return
			}
			walk(u.Key(), false)
			walk(u.Elem(), false)
		case *types.Interface, *types.Signature, *types.Chan:
			all = true
		case *types.Tuple:
			for i := 0; i < u.Len(); i++ {
				walk(u.At(i).Type(), false)
			}
		default:
			all = true
		}
	}
	for _, t := range ts {
		walk(t, false)
	}
	if all {
		return nil, true
	}
	return out, false
}

// calleeNames: the bare name and, for methods, Receiver.Method of a statically known callee.
func calleeNames(c *ssa.CallCommon) []string {
	name := ""
	if c.IsInvoke() {
		name = c.Method.Name()
	} else if callee := c.StaticCallee(); callee != nil && callee.Object() != nil {
		name = callee.Name()
	}
	if name == "" {
		return nil
	}
	out := []string{name}
	if sig := c.Signature(); sig != nil && sig.Recv() != nil {
		rt := sig.Recv().Type()
		if p, ok := types.Unalias(rt).(*types.Pointer); ok {
			rt = p.Elem()
		}
		if nt, ok := types.Unalias(rt).(*types.Named); ok {
			out = append(out, nt.Obj().Name()+"."+name)
		}
	}
	return out
}

// assignsEverything / assignsAllOf: does the contract of the function being verified itself allow such writes?
func (x *Exec) assignsEverything() bool {
	for _, a := range x.spec.Assigns {
		if a.All {
			return true
		}
	}
	return false
}

func (x *Exec) assignsAllOf(t types.Type) bool {
	for _, a := range x.spec.Assigns {
		if a.Owner != nil {
			if ot, err := x.w.ResolveType(funcHome[x.spec], a.Owner); err == nil && x.w.heapKey(ot) == x.w.heapKey(t) {
				return true
			}
		}
	}
	return false
}
