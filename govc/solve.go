package main

// Discharging obligations with the installed SMT solvers.

import (
	"bytes"
	"context"
	"crypto/sha1"
	"fmt"
	"os"
	"os/exec"
	"path/filepath"
	"strings"
	"sync"
	"time"
)

type solverDef struct {
	name   string
	bin    string
	args   func(timeoutS int) []string
	header string
}

var solvers = []solverDef{
	{"z3-new", "z3-new", func(t int) []string { return []string{fmt.Sprintf("-T:%d", t)} }, "(set-option :produce-models true)\n"},
	{"z3", "z3", func(t int) []string { return []string{fmt.Sprintf("-T:%d", t)} }, "(set-option :produce-models true)\n"},
	{"cvc5", "cvc5", func(t int) []string { return []string{fmt.Sprintf("--tlimit=%d", t*1000), "--produce-models"} }, "(set-logic ALL)\n"},
}

type solveResult struct {
	status  string // unsat, sat, unknown, timeout, error
	backend string
	out     string
	timeS   float64
}

func runSolver(sd solverDef, body string, file string, timeoutS int) solveResult {
	text := sd.header + body + "(check-sat)\n(get-model)\n"
	path := file + "." + sd.name + ".smt2"
	if err := os.WriteFile(path, []byte(text), 0o644); err != nil {
		return solveResult{status: "error", backend: sd.name, out: err.Error()}
	}
	ctx, cancel := context.WithTimeout(context.Background(), time.Duration(timeoutS+5)*time.Second)
	defer cancel()
	cmd := exec.CommandContext(ctx, sd.bin, append(sd.args(timeoutS), path)...)
	var out bytes.Buffer
	cmd.Stdout = &out
	cmd.Stderr = &out
	t0 := time.Now()
	err := cmd.Run()
	dt := time.Since(t0).Seconds()
	o := out.String()
	first := strings.TrimSpace(strings.SplitN(o, "\n", 2)[0])
	st := "error"
	switch first {
	case "unsat", "sat", "unknown", "timeout":
		st = first
	default:
		if ctx.Err() != nil || strings.Contains(o, "interrupted by timeout") {
			st = "timeout"
		} else if err != nil && strings.Contains(o, "unknown") {
			st = "unknown"
		}
	}
	if st == "unsat" || st == "unknown" || st == "timeout" {
		// keep only small outputs
		if len(o) > 400 {
			o = o[:400]
		}
	}
	if len(o) > 20000 {
		o = o[:20000] + "\n…(truncated)"
	}
	return solveResult{status: st, backend: sd.name, out: o, timeS: dt}
}

type Discharger struct {
	outDir   string
	timeoutS int
	thorough bool
	mu       sync.Mutex
	solverS  float64
	byBack   map[string]int
	splits   []string
	answers  map[string]int // "<backend>:<status>" over every solver run on a proof obligation
}

func (d *Discharger) solveOne(w *World, o *Obligation) {
	if o.Trivial {
		return
	}
	sc := o.Script
	h := sha1.Sum([]byte(o.Func + "/" + o.Name))
	file := filepath.Join(d.outDir, fmt.Sprintf("%x", h[:6]))
	record := func(r solveResult) {
		d.mu.Lock()
		d.solverS += r.timeS
		d.mu.Unlock()
	}
	var results []solveResult
	tmo := d.timeoutS
	if o.Expect == "sat" {
		tmo = 3
		if d.thorough {
			tmo = 10
		}
	}
	r := runSolver(solvers[0], sc.Text, file, tmo)
	record(r)
	results = append(results, r)
	decided := func(r solveResult) bool { return r.status == "unsat" || r.status == "sat" }
	if o.Expect == "sat" {
		// vacuity covers are cross-checked on the second z3: a hypothesis set that one solver satisfies and the
		// other refutes means inconsistent axioms or a solver defect, and is fatal (split)
		r2 := runSolver(solvers[1], sc.Text, file, tmo)
		record(r2)
		results = append(results, r2)
		if d.thorough {
			r3 := runSolver(solvers[2], sc.Text, file, tmo)
			record(r3)
			results = append(results, r3)
		}
	}
	if (!decided(r) || d.thorough) && o.Expect != "sat" {
		var wg sync.WaitGroup
		rest := make([]solveResult, len(solvers)-1)
		for i, sd := range solvers[1:] {
			wg.Add(1)
			go func(i int, sd solverDef) {
				defer wg.Done()
				rest[i] = runSolver(sd, sc.Text, file, d.timeoutS)
			}(i, sd)
		}
		wg.Wait()
		for _, rr := range rest {
			record(rr)
			results = append(results, rr)
		}
	}
	// classify
	var final *solveResult
	sawSat, sawUnsat := false, false
	for i := range results {
		rr := &results[i]
		if rr.status == "sat" {
			sawSat = true
		}
		if rr.status == "unsat" {
			sawUnsat = true
		}
	}
	if o.Expect != "sat" {
		d.mu.Lock()
		if d.answers == nil {
			d.answers = map[string]int{}
		}
		for _, rr := range results {
			d.answers[rr.backend+":"+rr.status]++
		}
		d.mu.Unlock()
	}
	if sawSat && sawUnsat {
		d.mu.Lock()
		d.splits = append(d.splits, o.Func+"/"+o.Name)
		d.mu.Unlock()
	}
	for i := range results {
		rr := &results[i]
		if decided(*rr) {
			// prefer a sat answer (it carries a model) when expecting unsat and solvers disagree
			if final == nil || (rr.status == "sat" && final.status != "sat") {
				final = rr
			}
		}
	}
	if final == nil {
		final = &results[0]
	}
	o.Backend = final.backend
	o.TimeS = 0
	for _, rr := range results {
		o.TimeS += rr.timeS
	}
	o.Model = final.out
	switch {
	case o.Expect == "unsat" && final.status == "unsat":
		o.Status = "discharged"
	case o.Expect == "unsat" && final.status == "sat":
		o.Status = "failed"
	case o.Expect == "sat" && sawSat && sawUnsat:
		o.Status = "split"
		o.Note = "solvers disagree on the satisfiability of the hypotheses (inconsistent axioms or solver defect)"
	case o.Expect == "sat" && final.status == "sat":
		o.Status = "covered"
	case o.Expect == "sat" && final.status == "unsat":
		o.Status = "vacuous"
	default:
		o.Status = "undecided"
		var parts []string
		for _, rr := range results {
			parts = append(parts, rr.backend+"="+rr.status)
		}
		o.Note = strings.Join(parts, " ")
	}
	if (o.Status == "discharged" || o.Status == "covered") && os.Getenv("GOVC_KEEP") == "" {
		for _, sd := range solvers {
			os.Remove(file + "." + sd.name + ".smt2")
		}
	} else {
		o.Note += " script=" + file + "." + final.backend + ".smt2"
	}
	d.mu.Lock()
	if d.byBack == nil {
		d.byBack = map[string]int{}
	}
	d.byBack[o.Backend]++
	d.mu.Unlock()
}

func (d *Discharger) Run(w *World, obls []*Obligation, workers int) {
	os.MkdirAll(d.outDir, 0o755)
	ch := make(chan *Obligation)
	var wg sync.WaitGroup
	for i := 0; i < workers; i++ {
		wg.Add(1)
		go func() {
			defer wg.Done()
			for o := range ch {
				d.solveOne(w, o)
			}
		}()
	}
	for _, o := range obls {
		if !o.Trivial {
			var asserts []*Term
			seen := map[string]bool{}
			for _, a := range o.PC {
				if !seen[a.Key()] {
					seen[a.Key()] = true
					asserts = append(asserts, a)
				}
			}
			if o.Expect == "unsat" {
				asserts = append(asserts, Not(o.Goal))
			}
			o.Script = w.Reg.BuildScript(asserts, "")
		}
	}
	for _, o := range obls {
		if o.Trivial {
			d.mu.Lock()
			if d.byBack == nil {
				d.byBack = map[string]int{}
			}
			d.byBack["simp"]++
			d.mu.Unlock()
			continue
		}
		ch <- o
	}
	close(ch)
	wg.Wait()
}
