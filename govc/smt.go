package main

// SMT term layer: sorts are SMT-LIB sort strings, terms are immutable trees with
// light simplification at construction time. A Registry records every declared
// sort / datatype / function / axiom so that each VC emits only what it mentions.

import (
	"fmt"
	"math/big"
	"sort"
	"strconv"
	"strings"
)

type Kind int

const (
	KBool  Kind = iota // true / false
	KInt               // integer literal
	KVar               // declared constant or bound variable
	KApp               // function / builtin application
	KQuant             // forall / exists
)

type Term struct {
	K     Kind
	Name  string // KVar: symbol; KApp: operator; KQuant: "forall"/"exists"
	Args  []*Term
	Sort  string
	B     bool     // KBool
	I     *big.Int // KInt
	Bound []*Term  // KQuant bound vars (KVar)
	Pats  [][]*Term
	key   string
	id    int
	size  int // tree size (saturating), used to decide what to name when printing
}

const (
	SBool  = "Bool"
	SInt   = "Int"
	SStr   = "Str"
	SIface = "Iface"
)

var (
	TTrue  = intern(&Term{K: KBool, B: true, Sort: SBool})
	TFalse = intern(&Term{K: KBool, B: false, Sort: SBool})
)

// Hash-consing: structurally equal terms are the same object; Key() is the object's id, so equality
// tests and caches never build strings proportional to the (tree) size of a shared DAG.
var internTab = map[string]*Term{}
var internCtr int

func intern(t *Term) *Term {
	var sb strings.Builder
	sb.WriteByte(byte('0' + t.K))
	sb.WriteByte('|')
	sb.WriteString(t.Name)
	sb.WriteByte('|')
	sb.WriteString(t.Sort)
	switch t.K {
	case KBool:
		if t.B {
			sb.WriteString("|T")
		}
	case KInt:
		sb.WriteByte('|')
		sb.WriteString(t.I.String())
	}
	for _, a := range t.Args {
		sb.WriteByte(',')
		sb.WriteString(a.Key())
	}
	if t.K == KQuant {
		sb.WriteByte(';')
		for _, b := range t.Bound {
			sb.WriteString(b.Key())
			sb.WriteByte(',')
		}
		for _, p := range t.Pats {
			sb.WriteByte('/')
			for _, x := range p {
				sb.WriteString(x.Key())
				sb.WriteByte(',')
			}
		}
	}
	sig := sb.String()
	if e, ok := internTab[sig]; ok {
		return e
	}
	internCtr++
	t.id = internCtr
	t.key = "#" + strconv.Itoa(internCtr)
	t.size = 1
	for _, a := range t.Args {
		t.size += a.size
		if t.size > 1<<40 {
			t.size = 1 << 40
		}
	}
	internTab[sig] = t
	return t
}

func IntT(i int64) *Term    { return intern(&Term{K: KInt, I: big.NewInt(i), Sort: SInt}) }
func BigT(i *big.Int) *Term { return intern(&Term{K: KInt, I: new(big.Int).Set(i), Sort: SInt}) }
func BoolT(b bool) *Term {
	if b {
		return TTrue
	}
	return TFalse
}
func Var(name, sort string) *Term { return intern(&Term{K: KVar, Name: name, Sort: sort}) }

func (t *Term) Key() string {
	if t.key == "" {
		panic("term not interned")
	}
	return t.key
}

func (t *Term) IsTrue() bool  { return t.K == KBool && t.B }
func (t *Term) IsFalse() bool { return t.K == KBool && !t.B }
func (t *Term) IsLit() bool   { return t.K == KInt }

func sym(s string) string {
	// map a few characters to legal simple-symbol characters so that most names need no |quoting|
	// (cvc5 1.0 mishandles quoted constructor names inside (_ is ...))
	s = strings.NewReplacer(":", "!", "[", "<", "]", ">", "#", "%").Replace(s)
	simple := s != ""
	for _, c := range s {
		if !(c >= 'a' && c <= 'z' || c >= 'A' && c <= 'Z' || c >= '0' && c <= '9' || strings.ContainsRune("~!@$%^&*_-+=<>.?/", c)) {
			simple = false
			break
		}
	}
	if simple && !(s[0] >= '0' && s[0] <= '9') {
		return s
	}
	s = strings.ReplaceAll(s, "|", "¦")
	s = strings.ReplaceAll(s, "\\", "/")
	return "|" + s + "|"
}

// unsym inverts sym for sort / constructor names.
func unsym(s string) string {
	s = strings.Trim(s, "|")
	return strings.NewReplacer("!", ":", "<", "[", ">", "]", "%", "#").Replace(s)
}

func (t *Term) String() string {
	var sb strings.Builder
	t.write(&sb)
	return sb.String()
}

// writeShared prints t, referring to named shared subterms by name (top: print the definition itself).
func (t *Term) writeShared(sb *strings.Builder, named map[int]string, top bool) {
	if !top {
		if nm, ok := named[t.id]; ok {
			sb.WriteString(nm)
			return
		}
	}
	switch t.K {
	case KApp:
		if len(t.Args) == 0 {
			sb.WriteString(sym(t.Name))
			return
		}
		sb.WriteString("(")
		if isBuiltin(t.Name) || strings.HasPrefix(t.Name, "(_ is ") {
			sb.WriteString(t.Name)
		} else {
			sb.WriteString(sym(t.Name))
		}
		for _, a := range t.Args {
			sb.WriteString(" ")
			a.writeShared(sb, named, false)
		}
		sb.WriteString(")")
	case KQuant:
		sb.WriteString("(")
		sb.WriteString(t.Name)
		sb.WriteString(" (")
		for i, b := range t.Bound {
			if i > 0 {
				sb.WriteString(" ")
			}
			sb.WriteString("(" + sym(b.Name) + " " + b.Sort + ")")
		}
		sb.WriteString(") ")
		if len(t.Pats) > 0 {
			sb.WriteString("(! ")
		}
		t.Args[0].writeShared(sb, named, false)
		if len(t.Pats) > 0 {
			for _, p := range t.Pats {
				sb.WriteString(" :pattern (")
				for i, x := range p {
					if i > 0 {
						sb.WriteString(" ")
					}
					x.writeShared(sb, named, false)
				}
				sb.WriteString(")")
			}
			sb.WriteString(")")
		}
		sb.WriteString(")")
	default:
		t.write(sb)
	}
}

func (t *Term) write(sb *strings.Builder) {
	switch t.K {
	case KBool:
		if t.B {
			sb.WriteString("true")
		} else {
			sb.WriteString("false")
		}
	case KInt:
		if t.I.Sign() < 0 {
			sb.WriteString("(- ")
			sb.WriteString(new(big.Int).Neg(t.I).String())
			sb.WriteString(")")
		} else {
			sb.WriteString(t.I.String())
		}
	case KVar:
		sb.WriteString(sym(t.Name))
	case KApp:
		if len(t.Args) == 0 {
			sb.WriteString(sym(t.Name))
			return
		}
		sb.WriteString("(")
		if isBuiltin(t.Name) {
			sb.WriteString(t.Name)
		} else if strings.HasPrefix(t.Name, "(_ is ") {
			sb.WriteString(t.Name)
		} else {
			sb.WriteString(sym(t.Name))
		}
		for _, a := range t.Args {
			sb.WriteString(" ")
			a.write(sb)
		}
		sb.WriteString(")")
	case KQuant:
		sb.WriteString("(")
		sb.WriteString(t.Name)
		sb.WriteString(" (")
		for i, b := range t.Bound {
			if i > 0 {
				sb.WriteString(" ")
			}
			sb.WriteString("(" + sym(b.Name) + " " + b.Sort + ")")
		}
		sb.WriteString(") ")
		if len(t.Pats) > 0 {
			sb.WriteString("(! ")
		}
		t.Args[0].write(sb)
		if len(t.Pats) > 0 {
			for _, p := range t.Pats {
				sb.WriteString(" :pattern (")
				for i, x := range p {
					if i > 0 {
						sb.WriteString(" ")
					}
					x.write(sb)
				}
				sb.WriteString(")")
			}
			sb.WriteString(")")
		}
		sb.WriteString(")")
	}
}

var builtins = map[string]bool{"and": true, "or": true, "not": true, "=>": true, "=": true, "ite": true,
	"+": true, "-": true, "*": true, "div": true, "mod": true, "<": true, "<=": true, ">": true, ">=": true,
	"select": true, "store": true, "distinct": true}

func isBuiltin(n string) bool { return builtins[n] }

func App(name, sort string, args ...*Term) *Term {
	return intern(&Term{K: KApp, Name: name, Args: args, Sort: sort})
}

// ---- boolean connectives with folding ----

func And(ts ...*Term) *Term {
	var out []*Term
	seen := map[string]bool{}
	for _, t := range ts {
		if t == nil {
			continue
		}
		if t.IsFalse() {
			return TFalse
		}
		if t.IsTrue() {
			continue
		}
		if t.K == KApp && t.Name == "and" {
			for _, a := range t.Args {
				if !seen[a.Key()] {
					seen[a.Key()] = true
					out = append(out, a)
				}
			}
			continue
		}
		if !seen[t.Key()] {
			seen[t.Key()] = true
			out = append(out, t)
		}
	}
	if len(out) == 0 {
		return TTrue
	}
	if len(out) == 1 {
		return out[0]
	}
	return App("and", SBool, out...)
}

func Or(ts ...*Term) *Term {
	var out []*Term
	seen := map[string]bool{}
	for _, t := range ts {
		if t.IsTrue() {
			return TTrue
		}
		if t.IsFalse() {
			continue
		}
		if t.K == KApp && t.Name == "or" {
			for _, a := range t.Args {
				if !seen[a.Key()] {
					seen[a.Key()] = true
					out = append(out, a)
				}
			}
			continue
		}
		if !seen[t.Key()] {
			seen[t.Key()] = true
			out = append(out, t)
		}
	}
	if len(out) == 0 {
		return TFalse
	}
	if len(out) == 1 {
		return out[0]
	}
	return App("or", SBool, out...)
}

func Not(t *Term) *Term {
	if t.K == KBool {
		return BoolT(!t.B)
	}
	if t.K == KApp && t.Name == "not" {
		return t.Args[0]
	}
	return App("not", SBool, t)
}

func Implies(a, b *Term) *Term {
	if a.IsTrue() {
		return b
	}
	if a.IsFalse() || b.IsTrue() {
		return TTrue
	}
	if b.IsFalse() {
		return Not(a)
	}
	return App("=>", SBool, a, b)
}

func Iff(a, b *Term) *Term { return Eq(a, b) }

func Ite(c, a, b *Term) *Term {
	if c.IsTrue() {
		return a
	}
	if c.IsFalse() {
		return b
	}
	if a.Key() == b.Key() {
		return a
	}
	if a.Sort == SBool {
		if a.IsTrue() && b.IsFalse() {
			return c
		}
		if a.IsFalse() && b.IsTrue() {
			return Not(c)
		}
	}
	return App("ite", a.Sort, c, a, b)
}

// reg is consulted by Eq to decide distinctness of constructor terms and string literals.
var curReg *Registry

func isCtorApp(t *Term) bool {
	if t.K != KApp || curReg == nil {
		return false
	}
	_, ok := curReg.ctorOf[t.Name]
	return ok
}

func Eq(a, b *Term) *Term {
	if a.Sort != b.Sort && a.Sort != "" && b.Sort != "" {
		panic(fmt.Sprintf("Eq sort mismatch: %s : %s  vs  %s : %s", a, a.Sort, b, b.Sort))
	}
	if a.Key() == b.Key() {
		return TTrue
	}
	if a.K == KBool && b.K == KBool {
		return BoolT(a.B == b.B)
	}
	if a.K == KBool {
		if a.B {
			return b
		}
		return Not(b)
	}
	if b.K == KBool {
		if b.B {
			return a
		}
		return Not(a)
	}
	if a.K == KInt && b.K == KInt {
		return BoolT(a.I.Cmp(b.I) == 0)
	}
	if curReg != nil {
		if a.K == KVar && b.K == KVar && curReg.strLits[a.Name] != nil && curReg.strLits[b.Name] != nil {
			return TFalse // distinct literal symbols
		}
	}
	if isCtorApp(a) && isCtorApp(b) {
		if a.Name != b.Name {
			return TFalse
		}
		var cs []*Term
		for i := range a.Args {
			cs = append(cs, Eq(a.Args[i], b.Args[i]))
		}
		return And(cs...)
	}
	return App("=", SBool, a, b)
}

func Neq(a, b *Term) *Term { return Not(Eq(a, b)) }

// ---- integer arithmetic ----

func Add(a, b *Term) *Term {
	if a.IsLit() && b.IsLit() {
		return BigT(new(big.Int).Add(a.I, b.I))
	}
	if a.IsLit() && a.I.Sign() == 0 {
		return b
	}
	if b.IsLit() && b.I.Sign() == 0 {
		return a
	}
	// (x + c1) + c2
	if b.IsLit() && a.K == KApp && a.Name == "+" && len(a.Args) == 2 && a.Args[1].IsLit() {
		return Add(a.Args[0], BigT(new(big.Int).Add(a.Args[1].I, b.I)))
	}
	return App("+", SInt, a, b)
}

func Sub(a, b *Term) *Term {
	if a.IsLit() && b.IsLit() {
		return BigT(new(big.Int).Sub(a.I, b.I))
	}
	if b.IsLit() {
		return Add(a, BigT(new(big.Int).Neg(b.I)))
	}
	if a.Key() == b.Key() {
		return IntT(0)
	}
	return App("-", SInt, a, b)
}

func Mul(a, b *Term) *Term {
	if a.IsLit() && b.IsLit() {
		return BigT(new(big.Int).Mul(a.I, b.I))
	}
	if a.IsLit() && a.I.Cmp(big.NewInt(1)) == 0 {
		return b
	}
	if b.IsLit() && b.I.Cmp(big.NewInt(1)) == 0 {
		return a
	}
	return App("*", SInt, a, b)
}

// Go's truncated division / remainder for a positive literal divisor expressed with SMT's
// floor div/mod (euclidean for positive divisors).
func DivFloor(a, b *Term) *Term {
	if a.IsLit() && b.IsLit() && b.I.Sign() > 0 {
		q := new(big.Int)
		m := new(big.Int)
		q.DivMod(a.I, b.I, m)
		return BigT(q)
	}
	return App("div", SInt, a, b)
}
func ModFloor(a, b *Term) *Term {
	if a.IsLit() && b.IsLit() && b.I.Sign() > 0 {
		q := new(big.Int)
		m := new(big.Int)
		q.DivMod(a.I, b.I, m)
		return BigT(m)
	}
	return App("mod", SInt, a, b)
}

func cmpLit(op string, a, b *Term) (*Term, bool) {
	if a.IsLit() && b.IsLit() {
		c := a.I.Cmp(b.I)
		switch op {
		case "<":
			return BoolT(c < 0), true
		case "<=":
			return BoolT(c <= 0), true
		case ">":
			return BoolT(c > 0), true
		case ">=":
			return BoolT(c >= 0), true
		}
	}
	return nil, false
}

func Lt(a, b *Term) *Term {
	if r, ok := cmpLit("<", a, b); ok {
		return r
	}
	if a.Key() == b.Key() {
		return TFalse
	}
	return App("<", SBool, a, b)
}
func Le(a, b *Term) *Term {
	if r, ok := cmpLit("<=", a, b); ok {
		return r
	}
	if a.Key() == b.Key() {
		return TTrue
	}
	return App("<=", SBool, a, b)
}
func Gt(a, b *Term) *Term { return Lt(b, a) }
func Ge(a, b *Term) *Term { return Le(b, a) }

// ---- arrays ----

func ArraySort(idx, elem string) string { return "(Array " + idx + " " + elem + ")" }

func arrayElemSort(s string) string {
	// "(Array Int X)" -> X (index sort is always a simple token here)
	if !strings.HasPrefix(s, "(Array ") {
		panic("not an array sort: " + s)
	}
	rest := s[len("(Array "):]
	sp := strings.Index(rest, " ")
	return rest[sp+1 : len(rest)-1]
}

// splitOffset views t as base + literal offset.
func splitOffset(t *Term) (*Term, *big.Int) {
	if t.IsLit() {
		return nil, t.I
	}
	if t.K == KApp && t.Name == "+" && len(t.Args) == 2 && t.Args[1].IsLit() {
		return t.Args[0], t.Args[1].I
	}
	return t, big.NewInt(0)
}

// distinctIdx: syntactically provably different indices (literals, or the same base with different offsets).
func distinctIdx(a, b *Term) bool {
	ba, oa := splitOffset(a)
	bb, ob := splitOffset(b)
	if ba == bb {
		return oa.Cmp(ob) != 0
	}
	// nil (0) versus an allocated object: allocation bases are >= 0 and offsets of objects are >= 1
	isAllocBase := func(t *Term) bool {
		return t != nil && t.K == KVar && (t.Name == "alloc0" || strings.HasPrefix(t.Name, "allocL!"))
	}
	if ba == nil && oa.Sign() <= 0 && isAllocBase(bb) && ob.Sign() > 0 {
		return true
	}
	if bb == nil && ob.Sign() <= 0 && isAllocBase(ba) && oa.Sign() > 0 {
		return true
	}
	return false
}

// hvInfo describes an array obtained by forgetting `old` at the references in refs and above the watermark w0.
type hvInfo struct {
	old, fresh *Term
	refs       []*Term
	w0         *Term
}

var hvTab = map[string]*hvInfo{}

// hvResolve decides syntactically which side of a partially forgotten array index i reads (nil = undecided).
func hvResolve(h *hvInfo, i *Term) *Term {
	for _, r := range h.refs {
		if r == i {
			return h.fresh
		}
	}
	bi, oi := splitOffset(i)
	bw, ow := splitOffset(h.w0)
	if bi == bw && oi.Cmp(ow) <= 0 {
		// an object that existed before the region: unchanged unless it is one of the given references
		for _, r := range h.refs {
			if !distinctIdx(r, i) {
				return nil
			}
		}
		return h.old
	}
	if bi == nil && oi.Sign() <= 0 {
		return h.old // nil
	}
	return nil
}

func Select(a, i *Term) *Term {
	for {
		if a.K == KApp && a.Name == "store" {
			if a.Args[1] == i {
				return a.Args[2]
			}
			if distinctIdx(a.Args[1], i) {
				a = a.Args[0]
				continue
			}
			break
		}
		if a.K == KVar {
			if h, ok := hvTab[a.Name]; ok {
				if side := hvResolve(h, i); side != nil {
					a = side
					continue
				}
			}
		}
		break
	}
	if a.K == KApp && a.Name == "ite" {
		return Ite(a.Args[0], Select(a.Args[1], i), Select(a.Args[2], i))
	}
	return App("select", arrayElemSort(a.Sort), a, i)
}

func Store(a, i, v *Term) *Term {
	if a.K == KApp && a.Name == "store" && a.Args[1].Key() == i.Key() {
		a = a.Args[0]
	}
	return App("store", a.Sort, a, i, v)
}

// ---- quantifiers ----

func Forall(bound []*Term, body *Term, pats ...[]*Term) *Term {
	if body.IsTrue() {
		return TTrue
	}
	if len(bound) == 0 {
		return body
	}
	return intern(&Term{K: KQuant, Name: "forall", Bound: bound, Args: []*Term{body}, Sort: SBool, Pats: pats})
}

func Exists(bound []*Term, body *Term) *Term {
	if body.IsFalse() {
		return TFalse
	}
	if len(bound) == 0 {
		return body
	}
	return intern(&Term{K: KQuant, Name: "exists", Bound: bound, Args: []*Term{body}, Sort: SBool})
}

// contains reports whether the free variable `name` occurs in t.
func contains(t *Term, name string) bool {
	return containsMemo(t, name, map[int]bool{})
}

func containsMemo(t *Term, name string, seen map[int]bool) bool {
	switch t.K {
	case KVar:
		return t.Name == name
	case KApp, KQuant:
		if seen[t.id] {
			return false
		}
		seen[t.id] = true
		for _, a := range t.Args {
			if containsMemo(a, name, seen) {
				return true
			}
		}
	}
	return false
}

// expandBounded turns forall/exists over one Int variable with literal bounds lo <= i < hi (hi-lo <= 64)
// into a finite conjunction/disjunction. Returns nil if the shape does not match.
func expandBounded(kind string, v *Term, body *Term) *Term {
	var guard, rest []*Term
	var inner *Term
	if kind == "forall" {
		if !(body.K == KApp && body.Name == "=>") {
			return nil
		}
		guard = conjList(body.Args[0])
		inner = body.Args[1]
	} else {
		guard = conjList(body)
	}
	var lo, hi *big.Int
	for _, g := range guard {
		if g.K == KApp && len(g.Args) == 2 {
			a, b := g.Args[0], g.Args[1]
			switch {
			case g.Name == "<=" && a.IsLit() && b.K == KVar && b.Name == v.Name:
				lo = a.I
				continue
			case g.Name == "<" && a.K == KVar && a.Name == v.Name && b.IsLit():
				hi = b.I
				continue
			case g.Name == "<" && a.K == KVar && a.Name == v.Name && maxLit(b) != nil && hi == nil:
				hi = maxLit(b)
				rest = append(rest, g) // keep the symbolic guard
				continue
			case g.Name == "<=" && a.K == KVar && a.Name == v.Name && b.IsLit():
				hi = new(big.Int).Add(b.I, big.NewInt(1))
				continue
			case g.Name == "<" && a.IsLit() && b.K == KVar && b.Name == v.Name:
				lo = new(big.Int).Add(a.I, big.NewInt(1))
				continue
			}
		}
		rest = append(rest, g)
	}
	if lo == nil || hi == nil {
		return nil
	}
	n := new(big.Int).Sub(hi, lo)
	if n.Sign() < 0 {
		n = big.NewInt(0)
	}
	if n.Cmp(big.NewInt(64)) > 0 {
		return nil
	}
	var parts []*Term
	for k := new(big.Int).Set(lo); k.Cmp(hi) < 0; k = new(big.Int).Add(k, big.NewInt(1)) {
		m := map[string]*Term{v.Name: BigT(k)}
		if kind == "forall" {
			parts = append(parts, Implies(Subst(And(rest...), m), Subst(inner, m)))
		} else {
			parts = append(parts, Subst(And(rest...), m))
		}
	}
	if kind == "forall" {
		return And(parts...)
	}
	return Or(parts...)
}

// maxLit: a literal upper bound of an integer term built from literals, ite and + (nil if none is syntactic).
func maxLit(t *Term) *big.Int {
	if t.IsLit() {
		return t.I
	}
	if t.K == KApp {
		switch t.Name {
		case "ite":
			a, b := maxLit(t.Args[1]), maxLit(t.Args[2])
			if a == nil || b == nil {
				return nil
			}
			if a.Cmp(b) >= 0 {
				return a
			}
			return b
		case "+":
			sum := big.NewInt(0)
			for _, x := range t.Args {
				m := maxLit(x)
				if m == nil {
					return nil
				}
				sum = new(big.Int).Add(sum, m)
			}
			return sum
		}
	}
	return nil
}

func conjList(t *Term) []*Term {
	if t.K == KApp && t.Name == "and" {
		return t.Args
	}
	return []*Term{t}
}

// Subst replaces free variables by name (memoised over the term DAG).
func Subst(t *Term, m map[string]*Term) *Term {
	if len(m) == 0 {
		return t
	}
	return substMemo(t, m, map[int]*Term{})
}

func substMemo(t *Term, m map[string]*Term, memo map[int]*Term) *Term {
	switch t.K {
	case KBool, KInt:
		return t
	case KVar:
		if r, ok := m[t.Name]; ok {
			return r
		}
		return t
	}
	if r, ok := memo[t.id]; ok {
		return r
	}
	var res *Term
	switch t.K {
	case KQuant:
		inner := m
		innerMemo := memo
		for _, b := range t.Bound {
			if _, ok := m[b.Name]; ok {
				inner = map[string]*Term{}
				for k, v := range m {
					inner[k] = v
				}
				for _, b2 := range t.Bound {
					delete(inner, b2.Name)
				}
				innerMemo = map[int]*Term{}
				break
			}
		}
		nb := substMemo(t.Args[0], inner, innerMemo)
		if nb == t.Args[0] {
			res = t
		} else {
			var np [][]*Term
			for _, p := range t.Pats {
				var q []*Term
				for _, x := range p {
					q = append(q, substMemo(x, inner, innerMemo))
				}
				np = append(np, q)
			}
			res = intern(&Term{K: KQuant, Name: t.Name, Bound: t.Bound, Args: []*Term{nb}, Sort: SBool, Pats: np})
		}
	case KApp:
		changed := false
		na := make([]*Term, len(t.Args))
		for i, a := range t.Args {
			na[i] = substMemo(a, m, memo)
			if na[i] != a {
				changed = true
			}
		}
		if !changed {
			res = t
		} else {
			res = rebuild(t, na)
		}
	default:
		res = t
	}
	memo[t.id] = res
	return res
}

// rebuild re-applies the simplifying constructors after substitution.
func rebuild(t *Term, na []*Term) *Term {
	switch t.Name {
	case "and":
		return And(na...)
	case "or":
		return Or(na...)
	case "not":
		return Not(na[0])
	case "=>":
		return Implies(na[0], na[1])
	case "=":
		return Eq(na[0], na[1])
	case "ite":
		return Ite(na[0], na[1], na[2])
	case "+":
		if len(na) == 2 {
			return Add(na[0], na[1])
		}
	case "-":
		if len(na) == 2 {
			return Sub(na[0], na[1])
		}
	case "*":
		if len(na) == 2 {
			return Mul(na[0], na[1])
		}
	case "<":
		return Lt(na[0], na[1])
	case "<=":
		return Le(na[0], na[1])
	case "select":
		return Select(na[0], na[1])
	case "store":
		return Store(na[0], na[1], na[2])
	}
	if curReg != nil {
		return curReg.Apply(t.Name, na...)
	}
	return intern(&Term{K: KApp, Name: t.Name, Args: na, Sort: t.Sort})
}

// ---------------------------------------------------------------------------
// Registry of declarations
// ---------------------------------------------------------------------------

type DTField struct {
	Name string // selector symbol
	Sort string
}

type DTCtor struct {
	Name   string
	Fields []DTField
}

type Datatype struct {
	Name  string
	Ctors []DTCtor
}

type FuncDecl struct {
	Name string
	Args []string
	Ret  string
	// Def, when non-nil, is emitted as a define-fun body over Params.
	Params []*Term
	Def    *Term
}

type Axiom struct {
	Name     string
	Triggers []string // emitted when any of these symbols is used
	Body     *Term
}

type Registry struct {
	usorts        map[string]bool
	usortOrd      []string
	dts           map[string]*Datatype
	dtOrd         []string
	funcs         map[string]*FuncDecl
	ctorOf        map[string]*Datatype // constructor name -> datatype
	selOf         map[string]selInfo   // selector name -> ctor / index
	axioms        []*Axiom
	noQuantAxioms bool               // candidate-model mode of the replayer: leave quantified axioms out of scripts
	strLits       map[string]*string // symbol -> literal text
	strSyms       map[string]string  // text -> symbol
	fresh         int
}

type selInfo struct {
	dt   *Datatype
	ctor int
	idx  int
}

func NewRegistry() *Registry {
	r := &Registry{usorts: map[string]bool{}, dts: map[string]*Datatype{}, funcs: map[string]*FuncDecl{},
		ctorOf: map[string]*Datatype{}, selOf: map[string]selInfo{}, strLits: map[string]*string{}, strSyms: map[string]string{}}
	r.DeclareSort(SStr)
	return r
}

func (r *Registry) DeclareSort(name string) {
	if !r.usorts[name] {
		r.usorts[name] = true
		r.usortOrd = append(r.usortOrd, name)
	}
}

func (r *Registry) DeclareDatatype(dt *Datatype) {
	if _, ok := r.dts[dt.Name]; ok {
		return
	}
	r.dts[dt.Name] = dt
	r.dtOrd = append(r.dtOrd, dt.Name)
	for ci, c := range dt.Ctors {
		r.ctorOf[c.Name] = dt
		for fi, f := range c.Fields {
			r.selOf[f.Name] = selInfo{dt, ci, fi}
		}
	}
}

func (r *Registry) DeclareFunc(name string, args []string, ret string) *FuncDecl {
	if f, ok := r.funcs[name]; ok {
		return f
	}
	f := &FuncDecl{Name: name, Args: args, Ret: ret}
	r.funcs[name] = f
	return f
}

func (r *Registry) AddAxiom(name string, triggers []string, body *Term) {
	for _, a := range r.axioms {
		if a.Name == name {
			return
		}
	}
	r.axioms = append(r.axioms, &Axiom{name, triggers, body})
}

func (r *Registry) Fresh(prefix, sort string) *Term {
	r.fresh++
	return Var(fmt.Sprintf("%s!%d", prefix, r.fresh), sort)
}

// StrLit returns the constant standing for a Go string literal.
func (r *Registry) StrLit(s string) *Term {
	if n, ok := r.strSyms[s]; ok {
		return Var(n, SStr)
	}
	n := fmt.Sprintf("str%d:%s", len(r.strSyms), strconv.Quote(truncate(s, 40)))
	r.strSyms[s] = n
	cp := s
	r.strLits[n] = &cp
	return Var(n, SStr)
}

func truncate(s string, n int) string {
	if len(s) > n {
		return s[:n] + "…"
	}
	return s
}

// Apply builds an application of a declared function, constructor, selector or tester,
// simplifying selector-of-constructor and tester-of-constructor.
func (r *Registry) Apply(name string, args ...*Term) *Term {
	if si, ok := r.selOf[name]; ok && len(args) == 1 {
		a := args[0]
		if a.K == KApp && r.ctorOf[a.Name] == si.dt {
			if a.Name == si.dt.Ctors[si.ctor].Name {
				return a.Args[si.idx]
			}
		}
		if a.K == KApp && a.Name == "ite" {
			// push selectors through ite (merged states): equal branches collapse again in Ite
			return Ite(a.Args[0], r.Apply(name, a.Args[1]), r.Apply(name, a.Args[2]))
		}
		return App(name, si.dt.Ctors[si.ctor].Fields[si.idx].Sort, a)
	}
	if dt, ok := r.ctorOf[name]; ok {
		// eta-contraction: C(sel0 x, sel1 x, ...) == x when x is known to be built by C is not sound in
		// general for multi-constructor datatypes; only do it for single-constructor datatypes.
		if len(dt.Ctors) == 1 && len(args) > 0 {
			var base *Term
			ok := true
			for i, a := range args {
				if a.K == KApp && a.Name == dt.Ctors[0].Fields[i].Name && len(a.Args) == 1 {
					if base == nil {
						base = a.Args[0]
					} else if base.Key() != a.Args[0].Key() {
						ok = false
						break
					}
				} else {
					ok = false
					break
				}
			}
			if ok && base != nil {
				return base
			}
		}
		return App(name, sym(dt.Name), args...)
	}
	if strings.HasPrefix(name, "(_ is ") {
		c := unsym(strings.TrimSuffix(strings.TrimPrefix(name, "(_ is "), ")"))
		a := args[0]
		if a.K == KApp {
			if _, isC := r.ctorOf[a.Name]; isC {
				return BoolT(a.Name == c)
			}
		}
		return App(name, SBool, a)
	}
	f, ok := r.funcs[name]
	if !ok {
		panic("Apply: undeclared function " + name)
	}
	if len(args) != len(f.Args) {
		panic(fmt.Sprintf("Apply %s: arity %d, want %d", name, len(args), len(f.Args)))
	}
	for i, a := range args {
		if a.Sort != f.Args[i] {
			panic(fmt.Sprintf("Apply %s: arg %d has sort %s, want %s (%s)", name, i, a.Sort, f.Args[i], a))
		}
	}
	return App(name, f.Ret, args...)
}

func (r *Registry) Is(ctor string, t *Term) *Term {
	return r.Apply("(_ is "+sym(ctor)+")", t)
}

// ---------------------------------------------------------------------------
// Script generation: only the declarations reachable from the asserted terms.
// ---------------------------------------------------------------------------

type Script struct {
	Text      string
	Consts    map[string]string // free constants -> sort
	Size      int
	UsesQuant bool
}

func (r *Registry) collect(t *Term, bound map[string]bool, consts map[string]string, funs map[string]bool, sorts map[string]bool, quant *bool) {
	r.collectMemo(t, bound, consts, funs, sorts, quant, map[int]bool{})
}

func (r *Registry) collectMemo(t *Term, bound map[string]bool, consts map[string]string, funs map[string]bool, sorts map[string]bool, quant *bool, seen map[int]bool) {
	if t.K == KApp || t.K == KQuant {
		// a subterm visited under one binder context yields the same symbols under any other, except that a
		// variable bound elsewhere might be free here; bound variables carry unique names, so memoising is safe
		if seen[t.id] {
			return
		}
		seen[t.id] = true
	}
	sorts[t.Sort] = true
	switch t.K {
	case KVar:
		if !bound[t.Name] {
			consts[t.Name] = t.Sort
		}
	case KApp:
		if !isBuiltin(t.Name) {
			funs[t.Name] = true
		}
		for _, a := range t.Args {
			r.collectMemo(a, bound, consts, funs, sorts, quant, seen)
		}
	case KQuant:
		*quant = true
		nb := map[string]bool{}
		for k := range bound {
			nb[k] = true
		}
		for _, b := range t.Bound {
			nb[b.Name] = true
			sorts[b.Sort] = true
		}
		r.collectMemo(t.Args[0], nb, consts, funs, sorts, quant, seen)
		for _, p := range t.Pats {
			for _, x := range p {
				r.collectMemo(x, nb, consts, funs, sorts, quant, seen)
			}
		}
	}
}

// sortAtoms splits a sort expression into its atomic names.
func sortAtoms(s string) []string {
	f := strings.FieldsFunc(s, func(c rune) bool { return c == '(' || c == ')' || c == ' ' })
	var out []string
	for _, x := range f {
		if x != "Array" && x != "Int" && x != "Bool" {
			out = append(out, x)
		}
	}
	return out
}

// BuildScriptQ: like BuildScript, plus (check-sat) and a (get-value ...) of the query terms.
func (r *Registry) BuildScriptQ(asserts []*Term, queries []*Term) *Script {
	sc := r.buildScript(asserts, "", queries)
	var sb strings.Builder
	sb.WriteString(sc.Text)
	sb.WriteString("(check-sat)\n(get-value (")
	for _, q := range queries {
		sb.WriteString(" ")
		sb.WriteString(q.String())
	}
	sb.WriteString("))\n")
	sc.Text = sb.String()
	return sc
}

// termHasQuant: does the term contain a quantifier?
func termHasQuant(t *Term, seen map[int]bool) bool {
	if t == nil || seen[t.id] {
		return false
	}
	seen[t.id] = true
	if t.K == KQuant {
		return true
	}
	for _, a := range t.Args {
		if termHasQuant(a, seen) {
			return true
		}
	}
	return false
}

func (r *Registry) BuildScript(asserts []*Term, logicOpts string) *Script {
	return r.buildScript(asserts, logicOpts, nil)
}

func (r *Registry) buildScript(asserts []*Term, logicOpts string, extra []*Term) *Script {
	consts := map[string]string{}
	funs := map[string]bool{}
	sorts := map[string]bool{}
	quant := false
	for _, a := range asserts {
		r.collect(a, map[string]bool{}, consts, funs, sorts, &quant)
	}
	for _, a := range extra {
		r.collect(a, map[string]bool{}, consts, funs, sorts, &quant)
	}
	// axioms triggered by used symbols (to a fixed point)
	var axs []*Axiom
	usedAx := map[string]bool{}
	for changed := true; changed; {
		changed = false
		for _, ax := range r.axioms {
			if usedAx[ax.Name] {
				continue
			}
			hit := false
			for _, tr := range ax.Triggers {
				if funs[tr] || sorts[tr] {
					hit = true
					break
				}
				if _, ok := consts[tr]; ok {
					hit = true
					break
				}
			}
			if hit && r.noQuantAxioms && termHasQuant(ax.Body, map[int]bool{}) {
				usedAx[ax.Name] = true // candidate-model mode: quantified axioms are left out
				continue
			}
			if hit {
				usedAx[ax.Name] = true
				axs = append(axs, ax)
				r.collect(ax.Body, map[string]bool{}, consts, funs, sorts, &quant)
				changed = true
			}
		}
		// defined functions pull in their bodies
		for fn := range funs {
			if f, ok := r.funcs[fn]; ok && f.Def != nil && !usedAx["def:"+fn] {
				usedAx["def:"+fn] = true
				b := map[string]bool{}
				for _, p := range f.Params {
					b[p.Name] = true
				}
				r.collect(f.Def, b, consts, funs, sorts, &quant)
				changed = true
			}
		}
	}
	// close sorts over datatype fields and function signatures
	needDT := map[string]bool{}
	needUS := map[string]bool{}
	var visitSort func(s string)
	visitSort = func(s string) {
		for _, a := range sortAtoms(s) {
			a = unsym(a)
			if dt, ok := r.dts[a]; ok {
				if needDT[a] {
					continue
				}
				needDT[a] = true
				for _, c := range dt.Ctors {
					for _, f := range c.Fields {
						visitSort(f.Sort)
					}
				}
			} else if r.usorts[a] {
				needUS[a] = true
			}
		}
	}
	for s := range sorts {
		visitSort(s)
	}
	for fn := range funs {
		if f, ok := r.funcs[fn]; ok {
			for _, a := range f.Args {
				visitSort(a)
			}
			visitSort(f.Ret)
		}
		if dt, ok := r.ctorOf[fn]; ok {
			visitSort(dt.Name)
		}
		if si, ok := r.selOf[fn]; ok {
			visitSort(si.dt.Name)
		}
	}
	for _, s := range consts {
		visitSort(s)
	}

	var sb strings.Builder
	sb.WriteString(logicOpts)
	for _, s := range r.usortOrd {
		if needUS[s] {
			fmt.Fprintf(&sb, "(declare-sort %s 0)\n", sym(s))
		}
	}
	// datatypes: one mutually recursive block
	var dts []*Datatype
	for _, n := range r.dtOrd {
		if needDT[n] {
			dts = append(dts, r.dts[n])
		}
	}
	if len(dts) > 0 {
		sb.WriteString("(declare-datatypes (")
		for _, d := range dts {
			fmt.Fprintf(&sb, "(%s 0) ", sym(d.Name))
		}
		sb.WriteString(") (\n")
		for _, d := range dts {
			sb.WriteString(" (")
			for _, c := range d.Ctors {
				sb.WriteString("(" + sym(c.Name))
				for _, f := range c.Fields {
					fmt.Fprintf(&sb, " (%s %s)", sym(f.Name), f.Sort)
				}
				sb.WriteString(") ")
			}
			sb.WriteString(")\n")
		}
		sb.WriteString("))\n")
	}
	// functions (uninterpreted first, then defined in dependency order = registration order)
	var fnames []string
	for fn := range funs {
		if _, ok := r.funcs[fn]; ok {
			fnames = append(fnames, fn)
		}
	}
	sort.Strings(fnames)
	for _, fn := range fnames {
		f := r.funcs[fn]
		if f.Def == nil {
			fmt.Fprintf(&sb, "(declare-fun %s (%s) %s)\n", sym(f.Name), strings.Join(f.Args, " "), f.Ret)
		}
	}
	var cnames []string
	for c := range consts {
		cnames = append(cnames, c)
	}
	sort.Strings(cnames)
	for _, c := range cnames {
		fmt.Fprintf(&sb, "(declare-const %s %s)\n", sym(c), consts[c])
	}
	for _, fn := range fnames {
		f := r.funcs[fn]
		if f.Def != nil {
			var ps []string
			for _, p := range f.Params {
				ps = append(ps, "("+sym(p.Name)+" "+p.Sort+")")
			}
			fmt.Fprintf(&sb, "(define-fun %s (%s) %s %s)\n", sym(f.Name), strings.Join(ps, " "), f.Ret, f.Def)
		}
	}
	// distinctness of string literals
	var lits []string
	for c := range consts {
		if r.strLits[c] != nil {
			lits = append(lits, c)
		}
	}
	sort.Strings(lits)
	if len(lits) > 1 {
		sb.WriteString("(assert (distinct")
		for _, l := range lits {
			sb.WriteString(" " + sym(l))
		}
		sb.WriteString("))\n")
	}
	if funs["strlen"] {
		for _, l := range lits {
			fmt.Fprintf(&sb, "(assert (= (strlen %s) %d))\n", sym(l), len(*r.strLits[l]))
		}
	}
	// Shared closed subterms are emitted once as nullary define-funs (the terms are DAGs; printing them as
	// trees would be exponential).
	boundNames := map[string]bool{}
	var gatherBound func(t *Term, seen map[int]bool)
	gatherBound = func(t *Term, seen map[int]bool) {
		if t.K != KApp && t.K != KQuant {
			return
		}
		if seen[t.id] {
			return
		}
		seen[t.id] = true
		if t.K == KQuant {
			for _, b := range t.Bound {
				boundNames[b.Name] = true
			}
			for _, p := range t.Pats {
				for _, x := range p {
					gatherBound(x, seen)
				}
			}
		}
		for _, a := range t.Args {
			gatherBound(a, seen)
		}
	}
	seenB := map[int]bool{}
	var roots []*Term
	for _, ax := range axs {
		roots = append(roots, ax.Body)
	}
	roots = append(roots, asserts...)
	for _, t := range roots {
		gatherBound(t, seenB)
	}
	closed := map[int]bool{}
	var isClosed func(t *Term) bool
	isClosed = func(t *Term) bool {
		switch t.K {
		case KBool, KInt:
			return true
		case KVar:
			return !boundNames[t.Name]
		}
		if v, ok := closed[t.id]; ok {
			return v
		}
		c := true
		for _, a := range t.Args {
			if !isClosed(a) {
				c = false
			}
		}
		if t.K == KQuant {
			for _, p := range t.Pats {
				for _, x := range p {
					isClosed(x)
				}
			}
			// a quantifier is closed if its body's only non-closed variables are its own: approximate by
			// never naming quantified formulas (they are printed in place)
			c = false
		}
		closed[t.id] = c
		return c
	}
	refs := map[int]int{}
	var order []*Term
	var count func(t *Term, seen map[int]bool)
	count = func(t *Term, seen map[int]bool) {
		if t.K != KApp && t.K != KQuant {
			return
		}
		refs[t.id]++
		if seen[t.id] {
			return
		}
		seen[t.id] = true
		for _, a := range t.Args {
			count(a, seen)
		}
		if t.K == KQuant {
			for _, p := range t.Pats {
				for _, x := range p {
					count(x, seen)
				}
			}
		}
		order = append(order, t) // post-order
	}
	seenC := map[int]bool{}
	for _, t := range roots {
		count(t, seenC)
	}
	named := map[int]string{}
	for _, t := range order {
		if t.K == KApp && len(t.Args) > 0 && refs[t.id] >= 2 && t.size >= 6 && isClosed(t) {
			named[t.id] = fmt.Sprintf("$t%d", t.id)
		}
	}
	for _, t := range order {
		if nm, ok := named[t.id]; ok {
			fmt.Fprintf(&sb, "(define-fun %s () %s ", nm, t.Sort)
			t.writeShared(&sb, named, true)
			sb.WriteString(")\n")
		}
	}
	for _, ax := range axs {
		sb.WriteString("(assert (! ")
		ax.Body.writeShared(&sb, named, false)
		fmt.Fprintf(&sb, " :named %s))\n", sym("ax:"+ax.Name))
	}
	for _, a := range asserts {
		sb.WriteString("(assert ")
		a.writeShared(&sb, named, false)
		sb.WriteString(")\n")
	}
	txt := sb.String()
	return &Script{Text: txt, Consts: consts, Size: len(txt), UsesQuant: quant}
}
