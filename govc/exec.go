package main

// Path-wise symbolic execution of naive-form go/ssa with contracts: generates proof obligations.

import (
	"fmt"
	"go/constant"
	"go/token"
	"go/types"
	"os"
	"sort"
	"strings"

	"golang.org/x/tools/go/ssa"
)

type Obligation struct {
	Name    string   // kind + site, unique within the function
	Func    string   // function under contract
	Tags    []string // properties that own it
	Kind    string   // pre, post, inv.init, inv.step, safe.*, frame, cover, ...
	Goal    *Term
	PC      []*Term
	Pos     string
	Path    []string
	Expect  string // "unsat" (proof) or "sat" (cover)
	Clause  string // label / text of the clause
	Status  string // filled by the solver stage
	Backend string
	TimeS   float64
	Model   string
	Script  *Script
	Note    string
	Trivial bool
	// for replay
	Inputs map[string]string
	ex     *Exec
}

// backingInfo: the array location a slice value was taken from (x[lo:hi] of *[N]T).
type backingInfo struct {
	loc    *Loc
	lo, hi *Term
}

type Exec struct {
	w         *World
	top       *ssa.Function
	spec      *FuncSpec
	obls      []*Obligation
	names     map[string]int
	epochCtr  int
	locIDs    map[string]*Term
	locBack   map[string]*Loc
	cloBack   map[string]*Closure
	paths     int
	maxPaths  int
	inlined   map[string]bool
	assumed   map[string]bool               // external contracts used
	havocked  map[string]bool               // external calls without contract
	rebound   map[string]bool               // locals named in clauses that were re-bound through their fingerprint
	loopClaim map[*ssa.BasicBlock]*LoopSpec // loop header -> the contract block assigned to it
	prop      string                        // the property being checked (tag-scoped requires clauses)
	entry     *State                        // snapshot for old()
	params    map[string]Value
	loops     map[*ssa.Function]*loopInfo
	retCount  int
	covers    []*Obligation
	errs      []string
	safety    bool
	work      []*State
	ownerTags []string
	iterSites map[*ssa.Function]int
	exitBound map[string]bool
	iterSeen  map[int]bool
	backing   map[string]*backingInfo
	qctr      int
}

func NewExec(w *World, fn *ssa.Function, spec *FuncSpec) *Exec {
	return &Exec{w: w, top: fn, spec: spec, names: map[string]int{}, locIDs: map[string]*Term{}, locBack: map[string]*Loc{},
		cloBack: map[string]*Closure{}, maxPaths: 4096, inlined: map[string]bool{}, assumed: map[string]bool{}, havocked: map[string]bool{}, rebound: map[string]bool{}, loopClaim: map[*ssa.BasicBlock]*LoopSpec{},
		loops: map[*ssa.Function]*loopInfo{}, iterSites: map[*ssa.Function]int{}, exitBound: map[string]bool{}, iterSeen: map[int]bool{}, backing: map[string]*backingInfo{}}
}

// frameTags: the properties that own the frame obligations of the function being verified. A function that declares
// `frame [tags]` names them; any other function with an `assigns` clause is held to it under every property it is
// tagged with, because its callers rely on that clause (modular reasoning) whatever property they are checked for.
func (x *Exec) frameTags() []string {
	if len(x.spec.Frame) > 0 {
		return x.spec.Frame
	}
	if x.spec.HasAssigns {
		return x.ownerTags
	}
	return nil
}

func isMapUpdate(in ssa.Instruction) bool {
	_, ok := in.(*ssa.MapUpdate)
	return ok
}

// reqActive: a requires clause without tags is a precondition for every property; a tagged one restricts the inputs
// only while one of its properties is being checked (e.g. "a certificate store is configured" for the no-panic
// property C09, but not for C01, where acceptance without a store must be shown impossible rather than assumed away).
func (x *Exec) reqActive(c *Clause) bool {
	return len(c.Tags) == 0 || x.prop == "" || hasTag(c.Tags, x.prop)
}

func fnKey(fn *ssa.Function) string {
	if fn.Object() != nil {
		if f, ok := fn.Object().(*types.Func); ok {
			return funcKeyOf(f)
		}
	}
	return fn.String()
}

func shortFn(key string) string {
	key = strings.ReplaceAll(key, repoModule+"/", "")
	key = strings.ReplaceAll(key, repoModule+".", "")
	key = strings.ReplaceAll(key, repoModule, "saml2")
	return key
}

func (x *Exec) posOf(p token.Pos) string {
	if !p.IsValid() {
		return ""
	}
	pp := x.w.Fset.Position(p)
	return fmt.Sprintf("%s:%d", strings.TrimPrefix(pp.Filename, x.w.RepoDir+"/"), pp.Line)
}

func (x *Exec) uniq(name string) string {
	x.names[name]++
	if x.names[name] == 1 {
		return name
	}
	return fmt.Sprintf("%s~%d", name, x.names[name])
}

func (x *Exec) oblige(s *State, kind, name string, goal *Term, tags []string, pos token.Pos, clause string) {
	if s.dead {
		return
	}
	o := &Obligation{Name: x.uniq(name), Func: shortFn(fnKey(x.top)), Tags: tags, Kind: kind, Goal: goal, PC: append([]*Term{}, s.pc...),
		Pos: x.posOf(pos), Path: append([]string{}, s.path...), Expect: "unsat", Clause: clause, ex: x}
	if goal.IsTrue() {
		o.Trivial = true
		o.Status = "discharged"
		o.Backend = "simp"
	}
	x.obls = append(x.obls, o)
}

// Run verifies the function against its contract and returns the obligations.
func (x *Exec) Run() (obls []*Obligation, err error) {
	defer func() {
		if r := recover(); r != nil {
			if os.Getenv("GOVC_PANIC") != "" {
				panic(r)
			}
			if se, ok := r.(subsetErr); ok {
				err = se
				return
			}
			if se, ok := r.(specErr); ok {
				panic(se)
			}
			err = subsetErr{fmt.Sprintf("internal engine error: %v", r)}
		}
	}()
	x.ownerTags = specTags(x.spec)
	x.safety = len(x.spec.Safety) > 0
	x.loadAxioms()
	s := &State{cellVal: map[*Cell]Value{}, heap: map[string]*Term{}, heapSort: map[string]string{}, ghostI: map[*ssa.BasicBlock]*Term{}}
	s.assume(Ge(Var("alloc0", SInt), IntT(0)))
	fr := x.newFrame(x.top, nil)
	// parameters
	x.params = map[string]Value{}
	for _, p := range x.top.Params {
		v := x.freshValue(s, p.Type(), "in."+p.Name())
		x.notePointer(s, v)
		fr.vals[p] = v
		fr.params = append(fr.params, v)
		x.params[p.Name()] = v
	}
	s.frames = []*Frame{fr}
	x.entry = s.snapshot()
	// requires
	env := x.specEnv(nil)
	for _, c := range x.spec.Requires {
		if !x.reqActive(c) {
			continue
		}
		t := x.evalBool(&EvalCtx{x: x, st: s, old: x.entry, env: env, sf: funcHome[x.spec]}, c.Expr)
		s.assume(t)
	}
	x.entry = s.snapshot()
	// cover.pre
	x.covers = append(x.covers, &Obligation{Name: "cover.pre", Func: shortFn(fnKey(x.top)), Kind: "cover", Goal: TFalse, PC: append([]*Term{}, s.pc...), Expect: "sat", Tags: x.ownerTags})
	x.work = []*State{s}
	for len(x.work) > 0 {
		st := x.work[len(x.work)-1]
		x.work = x.work[:len(x.work)-1]
		x.runPath(st)
		if x.paths > x.maxPaths {
			return nil, x.subsetf("path cap %d exceeded", x.maxPaths)
		}
	}
	// every loop / iterator block of the contract must bind to a loop / iterator call site of the body
	nloops := len(x.loopsOf(x.top).loops)
	for ord, sp := range x.spec.Loops {
		claimed := false
		for _, c := range x.loopClaim {
			if c == sp {
				claimed = true
			}
		}
		if !claimed && ord >= nloops {
			return nil, x.subsetf("contract clause 'loop %d' binds to no loop of the function (it has %d) nor of a helper inlined into it", ord, nloops)
		}
	}
	for ord := range x.spec.Iters {
		if !x.iterSeen[ord] {
			return nil, x.subsetf("contract clause 'iter %d' binds to no iterator call site reached in the function", ord)
		}
	}
	for ci, c := range x.spec.Exits {
		label := c.Label
		if label == "" {
			label = fmt.Sprintf("x%d", ci)
		}
		if !x.exitBound[label] {
			return nil, x.subsetf("exit clause %q binds at no return site (a local it mentions is not in scope anywhere)", label)
		}
	}
	return append(x.obls, x.covers...), nil
}

func specTags(fs *FuncSpec) []string {
	seen := map[string]bool{}
	var out []string
	add := func(ts []string) {
		for _, t := range ts {
			if !seen[t] {
				seen[t] = true
				out = append(out, t)
			}
		}
	}
	for _, c := range fs.Ensures {
		add(c.Tags)
	}
	for _, c := range fs.Requires {
		add(c.Tags)
	}
	for _, c := range fs.Exits {
		add(c.Tags)
	}
	for _, l := range fs.Loops {
		for _, c := range l.Invariants {
			add(c.Tags)
		}
	}
	for _, l := range fs.Iters {
		if l.NoHalt != nil {
			add(l.NoHalt.Tags)
		}
		for _, c := range l.Invariants {
			add(c.Tags)
		}
		for _, c := range l.Visits {
			add(c.Tags)
		}
	}
	for _, f := range fs.Fresh {
		add(f.Tags)
	}
	add(fs.Safety)
	add(fs.Frame)
	sort.Strings(out)
	return out
}

func (x *Exec) specEnv(results []Value) map[string]Value {
	env := map[string]Value{}
	for k, v := range x.params {
		env[k] = v
	}
	if results != nil {
		for i, r := range x.spec.Results {
			if i < len(results) {
				env[r.Name] = results[i]
			}
		}
		if len(results) == 1 {
			env["result"] = results[0]
		}
	}
	return env
}

func (x *Exec) newFrame(fn *ssa.Function, call ssa.CallInstruction) *Frame {
	if len(fn.Blocks) == 0 {
		panic(x.subsetf("function %s has no body", fn))
	}
	return &Frame{fn: fn, vals: map[ssa.Value]Value{}, cells: map[*ssa.Alloc]*Cell{}, block: fn.Blocks[0], callSite: call,
		cut: map[*ssa.BasicBlock]bool{}, unroll: map[*ssa.BasicBlock]int{}}
}

func (x *Exec) fork(s *State) *State {
	x.paths++
	return s.clone()
}

// runPath executes one state until its path ends (return of the root frame, panic, loop back edge, infeasible).
func (x *Exec) runPath(s *State) {
	for !s.dead {
		fr := s.top()
		if fr.ip >= len(fr.block.Instrs) {
			panic(x.subsetf("fell off block %d of %s", fr.block.Index, fr.fn))
		}
		in := fr.block.Instrs[fr.ip]
		fr.ip++
		if !x.step(s, fr, in) {
			return
		}
	}
}

func (x *Exec) jump(s *State, fr *Frame, to *ssa.BasicBlock) bool {
	from := fr.block
	fr.prev = from
	fr.block = to
	fr.ip = 0
	li := x.loopsOf(fr.fn)
	if lp := li.byHeader[to]; lp != nil {
		return x.enterLoopHeader(s, fr, lp, from)
	}
	return true
}

func (x *Exec) val(s *State, fr *Frame, v ssa.Value) Value {
	switch c := v.(type) {
	case *ssa.Const:
		return x.constValue(c)
	case *ssa.Function:
		return Value{T: c.Type(), Fn: c}
	case *ssa.Builtin:
		return Value{T: c.Type(), Builtin: c}
	case *ssa.Global:
		return Value{T: c.Type(), Global: c}
	case *ssa.FreeVar:
		for i, fv := range fr.fn.FreeVars {
			if fv == c {
				return fr.freeVars[i]
			}
		}
	}
	if r, ok := fr.vals[v]; ok {
		return r
	}
	panic(x.subsetf("use of undefined SSA value %s (%T) in %s", v.Name(), v, fr.fn))
}

func (x *Exec) constValue(c *ssa.Const) Value {
	t := c.Type()
	if c.Value == nil {
		if _, ok := t.Underlying().(*types.Signature); ok {
			return Value{T: t, Term: IntT(0)}
		}
		return Value{T: t, Term: x.w.ZeroTerm(t)}
	}
	if c.Value.Kind() == constant.Float {
		if _, ok := constant.Int64Val(constant.ToInt(c.Value)); !ok {
			panic(x.subsetf("floating-point constant %s", c.Value))
		}
	}
	return Value{T: t, Term: x.w.ConstTerm(t, c.Value)}
}

// notePointer assumes that a pointer obtained from the environment refers to an object that
// already exists (so later allocations are distinct from it).
func (x *Exec) notePointer(s *State, v Value) {
	if v.Term == nil || v.Term.IsLit() {
		return
	}
	switch types.Unalias(v.T).Underlying().(type) {
	case *types.Pointer, *types.Map:
		if v.Term.K == KVar || v.Term.K == KApp && v.Term.Name != "+" {
			s.assume(And(Le(IntT(0), v.Term), Le(v.Term, s.watermark())))
		}
	}
}

func (x *Exec) setVal(s *State, fr *Frame, v ssa.Value, val Value) {
	if val.Term != nil {
		if f := RangeFact(v.Type(), val.Term); f != nil && needsRange(val.Term) {
			s.assume(f)
		}
		x.noteRuntimeLen(s, v.Type(), val.Term)
	}
	fr.vals[v] = val
}

// noteRuntimeLen: a slice or string that exists at run time has a length within the address space (assumption;
// deliberately not a universal axiom, see the note in world.go).
func (x *Exec) noteRuntimeLen(s *State, t types.Type, term *Term) {
	if term == nil || !(term.K == KVar || term.K == KApp) || term.IsLit() {
		return
	}
	switch u := types.Unalias(t).Underlying().(type) {
	case *types.Slice:
		s.assume(Le(x.w.SlLen(term), lenBound))
	case *types.Basic:
		if u.Info()&types.IsString != 0 {
			s.assume(Le(x.w.Reg.Apply("strlen", term), lenBound))
		}
	}
}

func needsRange(t *Term) bool {
	if t.K == KVar {
		return true
	}
	if t.K == KApp {
		switch t.Name {
		case "+", "-", "*", "ite":
			return false
		}
		return true
	}
	return false
}

// step executes one instruction; returns false when the path has ended.
func (x *Exec) step(s *State, fr *Frame, in ssa.Instruction) bool {
	switch i := in.(type) {
	case *ssa.DebugRef:
		return true
	case *ssa.Alloc:
		x.doAlloc(s, fr, i)
	case *ssa.Store:
		addr := x.val(s, fr, i.Addr)
		v := x.val(s, fr, i.Val)
		x.store(s, fr, addr, v, i)
	case *ssa.UnOp:
		x.doUnOp(s, fr, i)
	case *ssa.BinOp:
		x.doBinOp(s, fr, i)
	case *ssa.FieldAddr:
		base := x.val(s, fr, i.X)
		x.safeNil(s, fr, base, i.Pos(), i)
		loc := x.ptrLoc(s, base)
		st, _ := types.Unalias(loc.Type()).Underlying().(*types.Struct)
		fr.vals[i] = Value{T: i.Type(), Loc: loc.extend(PathStep{Field: i.Field, FT: st.Field(i.Field).Type()})}
	case *ssa.Field:
		base := x.val(s, fr, i.X)
		fs := x.w.StructFields(i.X.Type())
		x.setVal(s, fr, i, Value{T: i.Type(), Term: x.w.Reg.Apply(fs[i.Field].Sel, base.Term)})
		x.notePointer(s, fr.vals[i])
	case *ssa.IndexAddr:
		x.doIndexAddr(s, fr, i)
	case *ssa.Index:
		base := x.val(s, fr, i.X)
		idx := x.val(s, fr, i.Index)
		switch u := types.Unalias(i.X.Type()).Underlying().(type) {
		case *types.Array:
			x.safeIdx(s, fr, idx.Term, IntT(u.Len()), i.Pos(), i)
			x.setVal(s, fr, i, Value{T: i.Type(), Term: Select(base.Term, idx.Term)})
		case *types.Basic: // string index
			panic(x.subsetf("string indexing"))
		default:
			panic(x.subsetf("Index on %s", i.X.Type()))
		}
	case *ssa.Slice:
		x.doSlice(s, fr, i)
	case *ssa.MakeInterface:
		v := x.val(s, fr, i.X)
		fr.vals[i] = Value{T: i.Type(), Term: x.w.Box(i.X.Type(), x.termOf(s, v))}
	case *ssa.ChangeInterface:
		fr.vals[i] = Value{T: i.Type(), Term: x.val(s, fr, i.X).Term}
	case *ssa.ChangeType:
		fr.vals[i] = x.convert(s, x.val(s, fr, i.X), i.Type())
	case *ssa.Convert:
		fr.vals[i] = x.convert(s, x.val(s, fr, i.X), i.Type())
	case *ssa.TypeAssert:
		x.doTypeAssert(s, fr, i)
	case *ssa.Extract:
		t := x.val(s, fr, i.Tuple)
		fr.vals[i] = t.Tup[i.Index]
	case *ssa.MakeClosure:
		var bind []Value
		for _, b := range i.Bindings {
			bind = append(bind, x.val(s, fr, b))
		}
		fr.vals[i] = Value{T: i.Type(), Clo: &Closure{Fn: i.Fn.(*ssa.Function), Bind: bind}}
	case *ssa.MakeMap:
		ref := x.allocRef(s)
		m := types.Unalias(i.Type()).Underlying().(*types.Map)
		x.heapWrite(s, ref, i.Type(), x.w.Reg.Apply("empty:"+sliceBase(x.w.mapValSort(m))))
		if h := x.w.HolderType(i.Type()); h != nil {
			x.heapWrite(s, ref, h, x.w.ZeroTerm(h)) // ghost view of a new, empty map
		}
		fr.vals[i] = Value{T: i.Type(), Term: ref}
	case *ssa.MakeSlice:
		ln := x.val(s, fr, i.Len)
		sort := x.w.SortOf(i.Type())
		sl := x.w.Reg.Fresh("mkslice", sort)
		x.oblSafe(s, fr, "safe.makeslice", Ge(ln.Term, IntT(0)), i.Pos(), i)
		s.assume(Eq(x.w.SlLen(sl), ln.Term))
		s.assume(Neq(sl, x.w.SlNil(sort)))
		k := Var("k", SInt)
		zero := x.w.ZeroTerm(types.Unalias(i.Type()).Underlying().(*types.Slice).Elem())
		s.assume(Forall([]*Term{k}, Eq(x.w.SlAt(sl, k), zero), []*Term{x.w.SlAt(sl, k)}))
		fr.vals[i] = Value{T: i.Type(), Term: sl}
	case *ssa.MapUpdate:
		m := x.val(s, fr, i.Map)
		k := x.val(s, fr, i.Key)
		v := x.val(s, fr, i.Value)
		x.oblSafe(s, fr, "safe.mapnil", Neq(m.Term, IntT(0)), i.Pos(), i)
		mt := types.Unalias(i.Map.Type()).Underlying().(*types.Map)
		mv := sliceBase(x.w.mapValSort(mt))
		cur := x.heapRead(s, m.Term, i.Map.Type())
		x.frameCheck(s, fr, m.Term, i.Map.Type(), i.Pos(), i)
		x.heapWrite(s, m.Term, i.Map.Type(), x.w.Reg.Apply("put:"+mv, cur, x.termOf(s, k), x.termOf(s, v)))
	case *ssa.Lookup:
		x.doLookup(s, fr, i)
	case *ssa.Phi:
		for k, p := range fr.block.Preds {
			if p == fr.prev {
				fr.vals[i] = x.val(s, fr, i.Edges[k])
				return true
			}
		}
		panic(x.subsetf("phi without matching predecessor"))
	case *ssa.Jump:
		return x.jump(s, fr, fr.block.Succs[0])
	case *ssa.If:
		c := x.val(s, fr, i.Cond).Term
		tb, fb := fr.block.Succs[0], fr.block.Succs[1]
		if c.IsTrue() {
			return x.jump(s, fr, tb)
		}
		if c.IsFalse() {
			return x.jump(s, fr, fb)
		}
		if x.tryMergeDiamond(s, fr, c, tb, fb) {
			return !s.dead
		}
		other := x.fork(s)
		ofr := other.top()
		x.learn(other, Not(c))
		other.path = append(other.path, fmt.Sprintf("%s:!b%d", x.posOf(i.Cond.Pos()), tb.Index))
		if x.jump(other, ofr, fb) {
			x.work = append(x.work, other)
		}
		x.learn(s, c)
		s.path = append(s.path, fmt.Sprintf("%s:b%d", x.posOf(i.Cond.Pos()), tb.Index))
		return x.jump(s, fr, tb)
	case *ssa.Return:
		var rs []Value
		for _, r := range i.Results {
			rs = append(rs, x.val(s, fr, r))
		}
		return x.doReturn(s, fr, rs, i)
	case *ssa.RunDefers:
		return x.runDefers(s, fr, i)
	case *ssa.Defer:
		d := deferred{call: &i.Call, pos: i}
		d.fn = x.calleeValue(s, fr, &i.Call)
		if i.Call.IsInvoke() {
			d.args = append(d.args, x.val(s, fr, i.Call.Value))
		}
		for _, a := range i.Call.Args {
			d.args = append(d.args, x.val(s, fr, a))
		}
		fr.defers = append(fr.defers, d)
	case *ssa.Panic:
		// an explicit panic: for functions with safety obligations this site must be unreachable
		x.oblSafe(s, fr, "safe.panic", TFalse, i.Pos(), i)
		return false
	case *ssa.Call:
		return x.doCall(s, fr, i)
	case *ssa.Go, *ssa.Select, *ssa.Send, *ssa.MakeChan:
		panic(x.subsetf("concurrency primitive %T is outside the supported subset", in))
	case *ssa.Range, *ssa.Next:
		panic(x.subsetf("range over map/string is outside the supported subset"))
	default:
		panic(x.subsetf("unsupported instruction %T: %s", in, in))
	}
	return true
}

func (x *Exec) ownerSafety(fr *Frame) []string {
	return x.spec.Safety
}

func (x *Exec) oblSafe(s *State, fr *Frame, kind string, goal *Term, pos token.Pos, in ssa.Instruction) {
	if !x.safety {
		return
	}
	name := fmt.Sprintf("%s@%s#%s", kind, shortFn(fnKey(fr.fn)), x.siteOrdinal(fr.fn, in))
	x.oblige(s, kind, name, goal, x.spec.Safety, posOfInstr(in, pos), "")
}

func posOfInstr(in ssa.Instruction, p token.Pos) token.Pos {
	if p.IsValid() {
		return p
	}
	if in != nil {
		return in.Pos()
	}
	return token.NoPos
}

// siteOrdinal numbers instructions of the same kind in source (block/instruction) order, so the
// name is stable under edits elsewhere in the file.
func (x *Exec) siteOrdinal(fn *ssa.Function, in ssa.Instruction) string {
	if in == nil {
		return "?"
	}
	n := 0
	kind := fmt.Sprintf("%T", in)
	for _, b := range fn.Blocks {
		for _, j := range b.Instrs {
			if j == in {
				return fmt.Sprintf("%s%d", strings.TrimPrefix(kind, "*ssa."), n)
			}
			if fmt.Sprintf("%T", j) == kind {
				n++
			}
		}
	}
	return "?"
}

func (x *Exec) safeNil(s *State, fr *Frame, base Value, pos token.Pos, in ssa.Instruction) {
	if base.Loc != nil || base.Term == nil {
		return
	}
	x.oblSafe(s, fr, "safe.nil", Neq(base.Term, IntT(0)), pos, in)
	// after a successful dereference the pointer is known to be non-nil on this path
	if x.safety {
		s.assume(Neq(base.Term, IntT(0)))
	}
}

func (x *Exec) safeIdx(s *State, fr *Frame, idx, ln *Term, pos token.Pos, in ssa.Instruction) {
	g := And(Le(IntT(0), idx), Lt(idx, ln))
	x.oblSafe(s, fr, "safe.idx", g, pos, in)
	if x.safety {
		s.assume(g)
	}
}

// ptrLoc turns a pointer value into a location.
func (x *Exec) ptrLoc(s *State, p Value) *Loc {
	if p.Loc != nil {
		return p.Loc
	}
	if p.Global != nil {
		return x.globalLoc(p.Global)
	}
	pt, ok := types.Unalias(p.T).Underlying().(*types.Pointer)
	if !ok {
		panic(x.subsetf("dereference of non-pointer %s", p.T))
	}
	if p.Term == nil {
		panic(x.subsetf("dereference of a non-term pointer"))
	}
	if p.Term.K == KVar {
		if l, ok := x.locBack[p.Term.Name]; ok {
			return l
		}
	}
	return &Loc{Ref: p.Term, RootT: pt.Elem()}
}

func (x *Exec) globalLoc(g *ssa.Global) *Loc {
	et := g.Type().(*types.Pointer).Elem()
	return &Loc{RootVal: x.globalTerm(g), RootT: et}
}

// globalTerm: package-level variables are modelled as immutable constants (a frame obligation
// checks that nothing outside init stores to repo globals).
func (x *Exec) globalTerm(g *ssa.Global) *Term {
	et := g.Type().(*types.Pointer).Elem()
	name := "g:" + g.Pkg.Pkg.Name() + "." + g.Name()
	return Var(name, x.w.SortOf(et))
}

func (x *Exec) doAlloc(s *State, fr *Frame, a *ssa.Alloc) {
	et := a.Type().(*types.Pointer).Elem()
	if !a.Heap || x.cellLike(a) {
		c := &Cell{ID: x.newCellID(), T: et, Name: a.Comment}
		fr.cells[a] = c
		s.cellVal[c] = x.zeroValue(et)
		fr.vals[a] = Value{T: a.Type(), Loc: &Loc{Cell: c, RootT: et}}
		return
	}
	ref := x.allocRef(s)
	x.heapWrite(s, ref, et, x.w.ZeroTerm(et))
	fr.vals[a] = Value{T: a.Type(), Term: ref}
}

var cellCtr int

func (x *Exec) newCellID() int { cellCtr++; return cellCtr }

// cellLike: a heap-flagged Alloc whose address is only used for loads, stores, field/index
// addressing and closure capture can be kept as a meta-level cell (no aliasing is possible).
func (x *Exec) cellLike(a *ssa.Alloc) bool {
	var ok func(v ssa.Value, depth int) bool
	ok = func(v ssa.Value, depth int) bool {
		refs := v.Referrers()
		if refs == nil {
			return false
		}
		for _, r := range *refs {
			switch u := r.(type) {
			case *ssa.DebugRef:
			case *ssa.UnOp:
				if u.Op != token.MUL {
					return false
				}
			case *ssa.Store:
				if u.Addr != v {
					return false // the address itself is stored somewhere
				}
			case *ssa.FieldAddr:
				if depth > 3 || !ok(u, depth+1) {
					return false
				}
			case *ssa.IndexAddr:
				if depth > 3 || !ok(u, depth+1) {
					return false
				}
			case *ssa.MakeClosure:
			case *ssa.Slice:
				// slicing a local array: the slice value is built from the array contents
			default:
				return false
			}
		}
		return true
	}
	return ok(a, 0)
}

func (x *Exec) load(s *State, fr *Frame, addr Value, in ssa.Instruction) Value {
	if addr.Loc == nil && addr.Global == nil {
		x.safeNil(s, fr, addr, in.Pos(), in)
	}
	if g := addr.Global; g != nil && len(x.spec.Frame) > 0 && g.Pkg != nil && strings.HasPrefix(g.Pkg.Pkg.Path(), repoModule) {
		// shared mutable state: a package-level variable of reference type is a backing store that every caller
		// (and every returned result built from it) aliases
		if et := g.Type().(*types.Pointer).Elem(); hasRefType(et, 0) {
			x.oblige(s, "frame", fmt.Sprintf("frame.global.%s@%s#%s", g.Name(), shortFn(fnKey(fr.fn)), x.siteOrdinal(fr.fn, in)), TFalse, x.spec.Frame, in.Pos(),
				"reads package-level variable "+g.Name()+" of reference type (shared backing store; results built from it alias each other)")
		}
	}
	l := x.ptrLoc(s, addr)
	x.guardCheck(s, fr, l, false, in)
	v := x.readLoc(s, l)
	x.notePointer(s, v)
	return v
}

// hasRefType: does a value of type t contain a pointer, slice, map, channel or function (interfaces excluded:
// package-level sentinel errors are interface values)?
func hasRefType(t types.Type, depth int) bool {
	if depth > 6 {
		return true
	}
	switch u := types.Unalias(t).Underlying().(type) {
	case *types.Pointer, *types.Slice, *types.Map, *types.Chan, *types.Signature:
		return true
	case *types.Struct:
		for i := 0; i < u.NumFields(); i++ {
			if hasRefType(u.Field(i).Type(), depth+1) {
				return true
			}
		}
	case *types.Array:
		return hasRefType(u.Elem(), depth+1)
	}
	return false
}

// guardCheck: guarded-by discipline (C17). A field declared `guarded ... by mu` is read only with
// the lock held (ghost $mu != 0) and written only with it write-held ($mu == 2).
func (x *Exec) guardCheck(s *State, fr *Frame, l *Loc, write bool, in ssa.Instruction) {
	if l.Ref == nil || len(l.Path) == 0 || l.Path[0].IsIdx || len(x.w.Guards) == 0 {
		return
	}
	if _, ok := types.Unalias(l.RootT).Underlying().(*types.Struct); !ok {
		return
	}
	g := x.w.Guards[fmt.Sprintf("%s.%d", x.w.structName(l.RootT), l.Path[0].Field)]
	if g == nil {
		return
	}
	fs := x.w.StructFields(l.RootT)
	mt := fs[g.MutexField].Type
	var muIdx = -1
	for i, f := range x.w.StructFields(mt) {
		if f.Name == "$mu" {
			muIdx = i
		}
	}
	if muIdx < 0 {
		return
	}
	ml := &Loc{Ref: l.Ref, RootT: l.RootT, Path: []PathStep{{Field: g.MutexField, FT: mt}, {Field: muIdx, FT: types.Typ[types.Int]}}}
	mu := x.readLoc(s, ml).Term
	kind, goal := "lock.read", Neq(mu, IntT(0))
	if write {
		kind, goal = "lock.write", Eq(mu, IntT(2))
	}
	name := fmt.Sprintf("%s.%s@%s#%s", kind, g.Name, shortFn(fnKey(fr.fn)), x.siteOrdinal(fr.fn, in))
	x.oblige(s, kind, name, goal, g.Tags, in.Pos(), "guarded field accessed with the lock held")
}

func (x *Exec) store(s *State, fr *Frame, addr Value, v Value, in ssa.Instruction) {
	if addr.Global != nil {
		panic(x.subsetf("store to package-level variable %s", addr.Global.Name()))
	}
	if addr.Loc == nil {
		x.safeNil(s, fr, addr, in.Pos(), in)
	}
	l := x.ptrLoc(s, addr)
	x.guardCheck(s, fr, l, true, in)
	if l.Ref != nil {
		x.frameCheck(s, fr, l.Ref, l.RootT, in.Pos(), in)
	}
	x.writeLoc(s, l, v)
}

func (x *Exec) frameCheckCond(s *State, fr *Frame, l *Loc, pos token.Pos, in ssa.Instruction) {
	if l.Cond == nil {
		x.frameCheck(s, fr, l.Ref, l.RootT, pos, in)
		return
	}
	if len(x.spec.Frame) == 0 && len(x.w.PointeeGuards) == 0 {
		return
	}
	t := s.clone()
	t.assume(l.Cond)
	x.frameCheck(t, t.top(), l.Ref, l.RootT, pos, in)
}

// pointeeGuardCheck: an object of a type declared `guarded pointee T by Owner.mu` is written (store or callee
// assigns) only while the receiver's mutex is write-held, unless the object was allocated in this call and is
// still private (allocated after the last lock acquisition is approximated by: allocated during this call).
func (x *Exec) pointeeGuardCheck(s *State, fr *Frame, ref *Term, t types.Type, pos token.Pos, in ssa.Instruction) {
	if len(x.w.PointeeGuards) == 0 {
		return
	}
	g := x.w.PointeeGuards[x.w.heapKey(t)]
	if g == nil || len(x.top.Params) == 0 {
		return
	}
	rp := x.top.Params[0]
	pt, ok := types.Unalias(rp.Type()).Underlying().(*types.Pointer)
	if !ok || !types.Identical(pt.Elem(), g.Owner) {
		return
	}
	recv := x.params[rp.Name()]
	mt := x.w.StructFields(g.Owner)[g.MutexField].Type
	muIdx := -1
	for i, f := range x.w.StructFields(mt) {
		if f.Name == "$mu" {
			muIdx = i
		}
	}
	if muIdx < 0 || recv.Term == nil {
		return
	}
	ml := &Loc{Ref: recv.Term, RootT: g.Owner, Path: []PathStep{{Field: g.MutexField, FT: mt}, {Field: muIdx, FT: types.Typ[types.Int]}}}
	mu := x.readLoc(s, ml).Term
	name := fmt.Sprintf("lock.pointee.%s@%s#%s", g.Name, shortFn(fnKey(fr.fn)), x.siteOrdinal(fr.fn, in))
	x.oblige(s, "lock.write", name, Eq(mu, IntT(2)), g.Tags, posOfInstr(in, pos), "shared object written with the write lock held")
}

// frameCheck: a store to a heap object must target an object allocated during this call or a
// location listed in the contract's assigns clause.
func (x *Exec) frameCheck(s *State, fr *Frame, ref *Term, t types.Type, pos token.Pos, in ssa.Instruction) {
	x.pointeeGuardCheck(s, fr, ref, t, pos, in)
	// A function that declares `frame [tags]` is held to its assigns clause everywhere (own stores, assigns of its
	// callees, uncontracted calls). Any other function with an assigns clause is held to it at least for the stores
	// its own body (and the helpers inlined into it) performs, under every property it is tagged with: its callers
	// rely on that clause.
	ftags := x.spec.Frame
	if len(ftags) == 0 {
		if _, isStore := in.(*ssa.Store); isStore || isMapUpdate(in) {
			ftags = x.frameTags()
		}
	}
	if len(ftags) == 0 {
		return
	}
	fresh := Gt(ref, Var("alloc0", SInt))
	goal := fresh
	if x.spec.HasAssigns {
		for _, a := range x.spec.Assigns {
			if a.All {
				goal = TTrue
				break
			}
			if a.Owner != nil {
				// `assigns all T.f`: any object of that type (per type, not per field)
				if ot, err := x.w.ResolveType(funcHome[x.spec], a.Owner); err == nil && x.w.heapKey(ot) == x.w.heapKey(t) {
					goal = TTrue
					break
				}
				continue
			}
			lv := x.evalLoc(&EvalCtx{x: x, st: s, old: x.entry, env: x.specEnv(nil), sf: funcHome[x.spec]}, a.Expr)
			if lv != nil && lv.Ref != nil && x.w.heapKey(lv.RootT) == x.w.heapKey(t) {
				goal = Or(goal, Eq(ref, lv.Ref))
			}
		}
	}
	name := fmt.Sprintf("frame@%s#%s", shortFn(fnKey(fr.fn)), x.siteOrdinal(fr.fn, in))
	x.oblige(s, "frame", name, goal, ftags, posOfInstr(in, pos), "store targets a fresh object or an assigns location")
}

func (x *Exec) doUnOp(s *State, fr *Frame, i *ssa.UnOp) {
	v := x.val(s, fr, i.X)
	switch i.Op {
	case token.MUL:
		r := x.load(s, fr, v, i)
		if r.Term != nil {
			x.setVal(s, fr, i, r)
		} else {
			fr.vals[i] = r
		}
	case token.NOT:
		fr.vals[i] = Value{T: i.Type(), Term: Not(v.Term)}
	case token.SUB:
		r := Sub(IntT(0), v.Term)
		x.ovf(s, fr, i.Type(), r, i.Pos(), i)
		fr.vals[i] = Value{T: i.Type(), Term: r}
	case token.XOR:
		panic(x.subsetf("bitwise complement"))
	default:
		panic(x.subsetf("unary %s", i.Op))
	}
}

func (x *Exec) ovf(s *State, fr *Frame, t types.Type, r *Term, pos token.Pos, in ssa.Instruction) {
	if f := RangeFact(t, r); f != nil {
		x.oblSafe(s, fr, "safe.ovf", f, pos, in)
		if x.safety {
			s.assume(f)
		}
	}
}

func isString(t types.Type) bool {
	b, ok := types.Unalias(t).Underlying().(*types.Basic)
	return ok && b.Info()&types.IsString != 0
}
func isInteger(t types.Type) bool {
	b, ok := types.Unalias(t).Underlying().(*types.Basic)
	return ok && b.Info()&types.IsInteger != 0
}

// bitMaskOp models x&c, x|c for a non-negative literal mask c with div/mod arithmetic (no bit-vectors).
func bitMaskOp(op token.Token, xv *Term, mask int64, width uint) *Term {
	res := xv
	if op == token.AND {
		res = IntT(0)
	}
	for b := uint(0); b < width; b++ {
		bit := ModFloor(DivFloor(xv, IntT(1<<b)), IntT(2))
		set := mask&(1<<b) != 0
		switch op {
		case token.AND:
			if set {
				res = Add(res, Mul(IntT(1<<b), bit))
			}
		case token.OR:
			if set {
				res = Add(res, Mul(IntT(1<<b), Sub(IntT(1), bit)))
			}
		}
	}
	return res
}

func (x *Exec) doBinOp(s *State, fr *Frame, i *ssa.BinOp) {
	a := x.val(s, fr, i.X)
	b := x.val(s, fr, i.Y)
	var r *Term
	switch i.Op {
	case token.EQL, token.NEQ:
		e := x.valuesEqual(s, a, b)
		if i.Op == token.NEQ {
			e = Not(e)
		}
		r = e
	case token.LSS, token.LEQ, token.GTR, token.GEQ:
		if !isInteger(i.X.Type()) {
			panic(x.subsetf("ordered comparison on %s", i.X.Type()))
		}
		switch i.Op {
		case token.LSS:
			r = Lt(a.Term, b.Term)
		case token.LEQ:
			r = Le(a.Term, b.Term)
		case token.GTR:
			r = Gt(a.Term, b.Term)
		case token.GEQ:
			r = Ge(a.Term, b.Term)
		}
	case token.ADD:
		if isString(i.Type()) {
			r = x.strcat(a.Term, b.Term)
		} else if isInteger(i.Type()) {
			r = Add(a.Term, b.Term)
			x.ovf(s, fr, i.Type(), r, i.Pos(), i)
		} else {
			panic(x.subsetf("+ on %s", i.Type()))
		}
	case token.SUB:
		r = Sub(a.Term, b.Term)
		x.ovf(s, fr, i.Type(), r, i.Pos(), i)
	case token.MUL:
		if !isInteger(i.Type()) {
			panic(x.subsetf("* on %s", i.Type()))
		}
		r = Mul(a.Term, b.Term)
		x.ovf(s, fr, i.Type(), r, i.Pos(), i)
	case token.REM, token.QUO:
		if !isInteger(i.Type()) {
			panic(x.subsetf("%s on %s", i.Op, i.Type()))
		}
		x.oblSafe(s, fr, "safe.div", Neq(b.Term, IntT(0)), i.Pos(), i)
		// Go truncates toward zero; SMT div/mod are euclidean. They agree for a >= 0, b > 0.
		nonneg := And(Ge(a.Term, IntT(0)), Gt(b.Term, IntT(0)))
		var eu *Term
		if i.Op == token.REM {
			eu = App("mod", SInt, a.Term, b.Term)
		} else {
			eu = App("div", SInt, a.Term, b.Term)
		}
		if nonneg.IsTrue() {
			r = eu
		} else {
			fv := x.w.Reg.Fresh("divmod", SInt)
			s.assume(Implies(nonneg, Eq(fv, eu)))
			r = fv
		}
	case token.AND, token.OR:
		if i.Type().Underlying().(*types.Basic).Info()&types.IsBoolean != 0 {
			panic(x.subsetf("non-short-circuit boolean op"))
		}
		lo, hi, _ := intRange(i.Type())
		_ = lo
		width := uint(hi.BitLen())
		if b.Term.IsLit() && b.Term.I.Sign() >= 0 && width <= 16 {
			r = bitMaskOp(i.Op, a.Term, b.Term.I.Int64(), width)
		} else if a.Term.IsLit() && a.Term.I.Sign() >= 0 && width <= 16 {
			r = bitMaskOp(i.Op, b.Term, a.Term.I.Int64(), width)
		} else {
			panic(x.subsetf("bit operation %s with non-constant mask or wide operand", i.Op))
		}
	case token.SHL, token.SHR:
		if !b.Term.IsLit() {
			panic(x.subsetf("shift by non-constant"))
		}
		k := IntT(1 << uint(b.Term.I.Int64()))
		if i.Op == token.SHR {
			r = DivFloor(a.Term, k)
		} else {
			lo, hi, _ := intRange(i.Type())
			_ = lo
			r = ModFloor(Mul(a.Term, k), Add(BigT(hi), IntT(1)))
		}
	default:
		panic(x.subsetf("binary operator %s", i.Op))
	}
	fr.vals[i] = Value{T: i.Type(), Term: r}
}

func (x *Exec) strcat(a, b *Term) *Term {
	empty := x.w.Reg.StrLit("")
	if a.Key() == empty.Key() {
		return b
	}
	if b.Key() == empty.Key() {
		return a
	}
	// right-nested normal form
	if a.K == KApp && a.Name == "strcat" {
		return x.strcat(a.Args[0], x.strcat(a.Args[1], b))
	}
	return x.w.Reg.Apply("strcat", a, b)
}

// valuesEqual implements Go's == for the supported types.
func (x *Exec) valuesEqual(s *State, a, b Value) *Term {
	if a.Term != nil && b.Term != nil {
		if a.Term.Sort != b.Term.Sort {
			// interface vs concrete: box the concrete side
			if a.Term.Sort == SIface {
				return Eq(a.Term, x.w.Box(b.T, b.Term))
			}
			if b.Term.Sort == SIface {
				return Eq(x.w.Box(a.T, a.Term), b.Term)
			}
			panic(x.subsetf("comparison of different sorts %s / %s", a.Term.Sort, b.Term.Sort))
		}
		return Eq(a.Term, b.Term)
	}
	// pointer comparisons involving meta-level locations
	if a.Loc != nil && b.Loc != nil {
		return BoolT(x.locIdent(a.Loc).Key() == x.locIdent(b.Loc).Key())
	}
	if a.Loc != nil && b.Term != nil {
		if a.Loc.Ref != nil && len(a.Loc.Path) == 0 {
			return Eq(a.Loc.Ref, b.Term)
		}
		if b.Term.IsLit() {
			return TFalse // interior pointers and locals are never nil
		}
		return Eq(x.locIdent(a.Loc), b.Term)
	}
	if b.Loc != nil && a.Term != nil {
		return x.valuesEqual(s, b, a)
	}
	if (a.Clo != nil || a.Fn != nil) && b.Term != nil && b.Term.IsLit() {
		return TFalse
	}
	if (b.Clo != nil || b.Fn != nil) && a.Term != nil && a.Term.IsLit() {
		return TFalse
	}
	panic(x.subsetf("unsupported comparison between %s and %s", a.T, b.T))
}

func (x *Exec) doIndexAddr(s *State, fr *Frame, i *ssa.IndexAddr) {
	base := x.val(s, fr, i.X)
	idx := x.val(s, fr, i.Index).Term
	switch u := types.Unalias(i.X.Type()).Underlying().(type) {
	case *types.Pointer: // pointer to array
		arr := u.Elem().Underlying().(*types.Array)
		x.safeNil(s, fr, base, i.Pos(), i)
		x.safeIdx(s, fr, idx, IntT(arr.Len()), i.Pos(), i)
		loc := x.ptrLoc(s, base)
		fr.vals[i] = Value{T: i.Type(), Loc: loc.extend(PathStep{IsIdx: true, Idx: idx, Field: -1, FT: arr.Elem()})}
	case *types.Slice:
		x.safeIdx(s, fr, idx, x.w.SlLen(base.Term), i.Pos(), i)
		fr.vals[i] = Value{T: i.Type(), Loc: &Loc{RootVal: x.w.SlAt(base.Term, idx), RootT: u.Elem()}}
	default:
		panic(x.subsetf("IndexAddr on %s", i.X.Type()))
	}
}

func (x *Exec) doSlice(s *State, fr *Frame, i *ssa.Slice) {
	base := x.val(s, fr, i.X)
	var lo, hi *Term
	if i.Low != nil {
		lo = x.val(s, fr, i.Low).Term
	} else {
		lo = IntT(0)
	}
	if i.Max != nil {
		panic(x.subsetf("3-index slice"))
	}
	switch u := types.Unalias(i.X.Type()).Underlying().(type) {
	case *types.Pointer: // *[N]T
		arr := u.Elem().Underlying().(*types.Array)
		if i.High != nil {
			hi = x.val(s, fr, i.High).Term
		} else {
			hi = IntT(arr.Len())
		}
		x.oblSafe(s, fr, "safe.slice", And(Le(IntT(0), lo), Le(lo, hi), Le(hi, IntT(arr.Len()))), i.Pos(), i)
		av := x.load(s, fr, base, i)
		st := x.w.SlMk(x.w.SortOf(i.Type()), av.Term, lo, hi)
		// remember which array the slice was taken from: a callee contract may assign backing(s)
		x.backing[st.Key()] = &backingInfo{loc: x.ptrLoc(s, base), lo: lo, hi: hi}
		fr.vals[i] = Value{T: i.Type(), Term: st}
	case *types.Slice:
		ln := x.w.SlLen(base.Term)
		if i.High != nil {
			hi = x.val(s, fr, i.High).Term
		} else {
			hi = ln
		}
		// Go checks against cap; slices are modelled without spare capacity, so hi <= len is the
		// (stronger) obligation. cap(s) >= len(s) means a pass is sound; a spurious failure is possible
		// only for code that reslices beyond len, which the subset does not contain.
		g := And(Le(IntT(0), lo), Le(lo, hi), Le(hi, ln))
		x.oblSafe(s, fr, "safe.slice", g, i.Pos(), i)
		if x.safety {
			s.assume(g)
		}
		if lo.IsLit() && lo.I.Sign() == 0 && hi.Key() == ln.Key() {
			fr.vals[i] = Value{T: i.Type(), Term: base.Term}
		} else {
			fr.vals[i] = Value{T: i.Type(), Term: x.w.SlSub(base.Term, lo, hi)}
		}
	case *types.Basic: // string
		ln := x.w.Reg.Apply("strlen", base.Term)
		if i.High != nil {
			hi = x.val(s, fr, i.High).Term
		} else {
			hi = ln
		}
		g := And(Le(IntT(0), lo), Le(lo, hi), Le(hi, ln))
		x.oblSafe(s, fr, "safe.slice", g, i.Pos(), i)
		if x.safety {
			s.assume(g)
		}
		fr.vals[i] = Value{T: i.Type(), Term: x.w.Reg.Apply("substr", base.Term, lo, hi)}
	default:
		panic(x.subsetf("Slice on %s", i.X.Type()))
	}
}

func (x *Exec) convert(s *State, v Value, to types.Type) Value {
	from := v.T
	fu, tu := types.Unalias(from).Underlying(), types.Unalias(to).Underlying()
	if v.Term == nil {
		nv := v
		nv.T = to
		return nv
	}
	switch tt := tu.(type) {
	case *types.Basic:
		fb, ok := fu.(*types.Basic)
		if ok && fb.Info()&types.IsInteger != 0 && tt.Info()&types.IsInteger != 0 {
			lo, hi, _ := intRange(to)
			flo, fhi, _ := intRange(from)
			if flo.Cmp(lo) >= 0 && fhi.Cmp(hi) <= 0 {
				return Value{T: to, Term: v.Term} // widening
			}
			if v.Term.IsLit() && v.Term.I.Cmp(lo) >= 0 && v.Term.I.Cmp(hi) <= 0 {
				return Value{T: to, Term: v.Term}
			}
			// narrowing or sign change: wrap-around semantics
			span := new(BigIntAlias).Sub(hi, lo)
			span.Add(span, bigOne)
			r := Add(ModFloor(Sub(v.Term, BigT(lo)), BigT(span)), BigT(lo))
			return Value{T: to, Term: r}
		}
		if ok && fb.Info()&types.IsString != 0 && tt.Info()&types.IsString != 0 {
			return Value{T: to, Term: v.Term}
		}
		if _, isSl := fu.(*types.Slice); isSl && tt.Info()&types.IsString != 0 {
			return Value{T: to, Term: x.convFunc("string.of.bytes", v.Term, SStr)}
		}
		if ok && fb.Info()&types.IsInteger != 0 && tt.Info()&types.IsString != 0 {
			return Value{T: to, Term: x.convFunc("string.of.rune", v.Term, SStr)}
		}
		if ok && fb.Info()&types.IsBoolean != 0 && tt.Info()&types.IsBoolean != 0 {
			return Value{T: to, Term: v.Term}
		}
	case *types.Slice:
		if fb, ok := fu.(*types.Basic); ok && fb.Info()&types.IsString != 0 {
			r := x.convFunc("bytes.of.string", v.Term, x.w.SortOf(to))
			s.assume(Eq(x.w.SlLen(r), x.w.Reg.Apply("strlen", v.Term)))
			return Value{T: to, Term: r}
		}
		if _, ok := fu.(*types.Slice); ok && x.w.SortOf(from) == x.w.SortOf(to) {
			return Value{T: to, Term: v.Term}
		}
	case *types.Struct:
		if _, ok := fu.(*types.Struct); ok {
			ff := x.w.StructFields(from)
			tf := x.w.StructFields(to)
			if x.w.SortOf(from) == x.w.SortOf(to) {
				return Value{T: to, Term: v.Term}
			}
			var args []*Term
			for k := range tf {
				if k < len(ff) && !tf[k].Ghost {
					args = append(args, x.w.Reg.Apply(ff[k].Sel, v.Term))
				} else {
					args = append(args, x.w.ZeroTerm(tf[k].Type))
				}
			}
			return Value{T: to, Term: x.w.MkStruct(to, args)}
		}
	case *types.Pointer, *types.Map, *types.Signature, *types.Interface, *types.Array:
		if x.w.SortOf(from) == x.w.SortOf(to) {
			return Value{T: to, Term: v.Term}
		}
	}
	panic(x.subsetf("conversion %s -> %s", from, to))
}

func (x *Exec) convFunc(name string, arg *Term, ret string) *Term {
	fn := name + ":" + mangleSort(arg.Sort) + ":" + mangleSort(ret)
	x.w.Reg.DeclareFunc(fn, []string{arg.Sort}, ret)
	return x.w.Reg.Apply(fn, arg)
}

func (x *Exec) doTypeAssert(s *State, fr *Frame, i *ssa.TypeAssert) {
	v := x.val(s, fr, i.X)
	if _, isI := types.Unalias(i.AssertedType).Underlying().(*types.Interface); isI {
		// assertion to an interface type: succeeds for some non-nil dynamic types; unknown otherwise
		okv := x.w.Reg.Fresh("implements", SBool)
		s.assume(Implies(okv, Neq(v.Term, x.w.INil())))
		if i.CommaOk {
			fr.vals[i] = Value{T: i.Type(), Tup: []Value{{T: i.AssertedType, Term: Ite(okv, v.Term, x.w.INil())}, {T: types.Typ[types.Bool], Term: okv}}}
		} else {
			x.oblSafe(s, fr, "safe.assert", okv, i.Pos(), i)
			fr.vals[i] = Value{T: i.Type(), Term: v.Term}
		}
		return
	}
	n := x.w.boxName(i.AssertedType)
	if !x.w.boxedSeen[n] {
		panic(x.subsetf("type assertion to unregistered type %s", n))
	}
	okv := x.w.Reg.Is("box:"+n, v.Term)
	val := x.w.Reg.Apply("unbox:"+n, v.Term)
	if i.CommaOk {
		res := Value{T: i.AssertedType, Term: Ite(okv, val, x.w.ZeroTerm(i.AssertedType))}
		fr.vals[i] = Value{T: i.Type(), Tup: []Value{res, {T: types.Typ[types.Bool], Term: okv}}}
		return
	}
	x.oblSafe(s, fr, "safe.assert", okv, i.Pos(), i)
	if x.safety {
		s.assume(okv)
	}
	fr.vals[i] = Value{T: i.Type(), Term: val}
}

func (x *Exec) doLookup(s *State, fr *Frame, i *ssa.Lookup) {
	m := x.val(s, fr, i.X)
	k := x.val(s, fr, i.Index)
	mt, ok := types.Unalias(i.X.Type()).Underlying().(*types.Map)
	if !ok {
		panic(x.subsetf("string lookup"))
	}
	mv := sliceBase(x.w.mapValSort(mt))
	content := x.heapRead(s, m.Term, i.X.Type())
	isNil := Eq(m.Term, IntT(0))
	has := And(Not(isNil), x.w.MapHas(mv, content, k.Term))
	val := Ite(has, x.w.MapGet(mv, content, k.Term), x.w.ZeroTerm(mt.Elem()))
	if i.CommaOk {
		fr.vals[i] = Value{T: i.Type(), Tup: []Value{{T: mt.Elem(), Term: val}, {T: types.Typ[types.Bool], Term: has}}}
	} else {
		fr.vals[i] = Value{T: i.Type(), Term: val}
	}
}

func (x *Exec) runDefers(s *State, fr *Frame, in ssa.Instruction) bool {
	for len(fr.defers) > 0 {
		d := fr.defers[len(fr.defers)-1]
		fr.defers = fr.defers[:len(fr.defers)-1]
		// deferred calls are executed modularly (contracts) – inlining a deferred body is not supported
		res, cont := x.callValue(s, fr, d.fn, d.args, d.call, d.pos, true)
		_ = res
		if !cont {
			return false
		}
	}
	return true
}

func (x *Exec) doReturn(s *State, fr *Frame, rs []Value, in *ssa.Return) bool {
	if len(s.frames) == 1 {
		x.checkPost(s, fr, rs, in)
		return false
	}
	// pop an inlined frame
	s.frames = s.frames[:len(s.frames)-1]
	caller := s.top()
	if fr.iter != nil {
		return x.iterHandlerReturned(s, caller, fr, rs)
	}
	// keep the helper's named locals reachable for exit clauses of the caller (code moved into a helper)
	ret := append([]retiredLocal{}, caller.retired...)
	ret = append(ret, fr.retired...)
	for _, a := range namedAllocs(fr.fn) {
		if pv, ok := fr.vals[a]; ok {
			ret = append(ret, retiredLocal{name: a.Comment, typ: allocTypeString(a), ptr: pv})
		}
	}
	caller.retired = ret
	call := fr.callSite
	if call != nil {
		if v := call.Value(); v != nil {
			x.bindResult(s, caller, v, rs)
		}
	}
	return true
}

func (x *Exec) bindResult(s *State, fr *Frame, v *ssa.Call, rs []Value) {
	if len(rs) > 0 {
		name := ""
		if v.Call.IsInvoke() {
			name = v.Call.Method.Name()
		} else if callee := v.Call.StaticCallee(); callee != nil {
			name = callee.Name()
		}
		if name != "" {
			if s.lastCall == nil {
				s.lastCall = map[string][]Value{}
			}
			s.lastCall[name] = append([]Value{}, rs...)
			// Receiver.Method
			if sig := v.Call.Signature(); sig != nil && sig.Recv() != nil {
				rt := sig.Recv().Type()
				if p, ok := types.Unalias(rt).(*types.Pointer); ok {
					rt = p.Elem()
				}
				if nt, ok := types.Unalias(rt).(*types.Named); ok {
					s.lastCall[nt.Obj().Name()+"."+name] = s.lastCall[name]
				}
			}
		}
	}
	switch len(rs) {
	case 0:
	case 1:
		r := rs[0]
		r.T = v.Type()
		x.noteRuntimeLen(s, r.T, r.Term)
		fr.vals[v] = r
	default:
		for _, r := range rs {
			if r.T != nil {
				x.noteRuntimeLen(s, r.T, r.Term)
			}
		}
		fr.vals[v] = Value{T: v.Type(), Tup: rs}
	}
}

func (x *Exec) checkPost(s *State, fr *Frame, rs []Value, in *ssa.Return) {
	x.retCount++
	retName := fmt.Sprintf("ret%d", x.retSiteOrdinal(fr.fn, in))
	env := x.specEnv(rs)
	ctx := &EvalCtx{x: x, st: s, old: x.entry, env: env, sf: funcHome[x.spec], fr: fr}
	for ci, c := range x.spec.Ensures {
		label := c.Label
		if label == "" {
			label = fmt.Sprintf("e%d", ci)
		}
		goal := x.evalBool(ctx, c.Expr)
		// split top-level conjunctions so that the failing conjunct is named
		for k, g := range conjuncts(goal) {
			nm := fmt.Sprintf("post#%s@%s", label, retName)
			if k > 0 {
				nm = fmt.Sprintf("post#%s.%d@%s", label, k, retName)
			}
			x.oblige(s, "post", nm, g, c.Tags, in.Pos(), label)
		}
	}
	// exit clauses: body-only assertions at return sites; a clause whose locals are not in scope at this
	// site is skipped here (every exit clause must bind at one site at least, see checkExitBound)
	for ci, c := range x.spec.Exits {
		label := c.Label
		if label == "" {
			label = fmt.Sprintf("x%d", ci)
		}
		var goal *Term
		func() {
			defer func() {
				if r := recover(); r != nil {
					if se, ok := r.(specErr); ok && (strings.Contains(se.msg, "unknown identifier") || strings.Contains(se.msg, "no field ")) {
						goal = nil
						return
					}
					panic(r)
				}
			}()
			goal = x.evalBool(ctx, c.Expr)
		}()
		if goal == nil {
			continue
		}
		x.exitBound[label] = true
		for k, g := range conjuncts(goal) {
			nm := fmt.Sprintf("exit#%s@%s", label, retName)
			if k > 0 {
				nm = fmt.Sprintf("exit#%s.%d@%s", label, k, retName)
			}
			x.oblige(s, "post", nm, g, c.Tags, in.Pos(), label)
		}
	}
	// lock balance: a mutex locked by this call is back in its entry state at every return
	if len(s.locked) > 0 && (x.safety || len(x.spec.Frame) > 0) {
		tags := append(append([]string{}, x.spec.Safety...), x.spec.Frame...)
		seenL := map[string]bool{}
		for _, l := range s.locked {
			mi := -1
			for i, f := range x.w.StructFields(l.Type()) {
				if f.Name == "$mu" {
					mi = i
				}
			}
			if mi < 0 {
				continue
			}
			ml := l.extend(PathStep{Field: mi, FT: types.Typ[types.Int]})
			now, was := x.readLoc(s, ml).Term, x.readLoc(x.entry, ml).Term
			if now == nil || was == nil || seenL[now.Key()+"|"+was.Key()] {
				continue
			}
			seenL[now.Key()+"|"+was.Key()] = true
			x.oblige(s, "post", fmt.Sprintf("safe.lockbalance@%s", retName), Eq(now, was), tags, in.Pos(), "every mutex locked by this call is released on this path")
		}
	}
	// `fresh r [when c]`: the result is an object allocated during this call
	for _, f := range x.spec.Fresh {
		v, ok := env[f.Name]
		if !ok || v.Term == nil {
			continue
		}
		g := Gt(v.Term, Var("alloc0", SInt))
		if f.When != nil {
			g = Implies(x.evalBool(ctx, f.When), g)
		}
		tags := f.Tags
		if len(tags) == 0 {
			tags = x.ownerTags
		}
		x.oblige(s, "post", fmt.Sprintf("post#fresh.%s@%s", f.Name, retName), g, tags, in.Pos(), "fresh "+f.Name)
	}
	if !s.dead {
		x.covers = append(x.covers, &Obligation{Name: x.uniq("cover.ret." + retName), Func: shortFn(fnKey(x.top)), Kind: "cover", Goal: TFalse,
			PC: append([]*Term{}, s.pc...), Expect: "sat", Tags: x.ownerTags, Pos: x.posOf(in.Pos()), Path: append([]string{}, s.path...)})
	}
}

func conjuncts(t *Term) []*Term {
	if t.K == KApp && t.Name == "and" {
		return t.Args
	}
	return []*Term{t}
}

func (x *Exec) retSiteOrdinal(fn *ssa.Function, in *ssa.Return) int {
	n := 0
	for _, b := range fn.Blocks {
		for _, j := range b.Instrs {
			if j == ssa.Instruction(in) {
				return n
			}
			if _, ok := j.(*ssa.Return); ok {
				n++
			}
		}
	}
	return -1
}

// loadAxioms evaluates the `axiom` clauses of the spec files once and registers them; an axiom is
// emitted into a VC when the VC mentions any symbol the axiom mentions.
func (x *Exec) loadAxioms() {
	for _, sf := range x.w.Specs {
		for _, ax := range sf.Axioms {
			name := "spec:" + ax.Name
			dup := false
			for _, a := range x.w.Reg.axioms {
				if a.Name == name {
					dup = true
				}
			}
			if dup {
				continue
			}
			st := &State{cellVal: map[*Cell]Value{}, heap: map[string]*Term{}, heapSort: map[string]string{}, ghostI: map[*ssa.BasicBlock]*Term{}}
			t := x.evalBool(&EvalCtx{x: x, st: st, old: st, env: map[string]Value{}, sf: sf}, ax.Expr)
			consts := map[string]string{}
			funs := map[string]bool{}
			sorts := map[string]bool{}
			q := false
			x.w.Reg.collect(t, map[string]bool{}, consts, funs, sorts, &q)
			var trig []string
			for f := range funs {
				if _, isCtor := x.w.Reg.ctorOf[f]; isCtor {
					continue
				}
				if _, isSel := x.w.Reg.selOf[f]; isSel {
					continue
				}
				if strings.HasPrefix(f, "(_ is ") {
					continue
				}
				trig = append(trig, f)
			}
			for cname := range consts {
				if x.w.Reg.strLits[cname] == nil {
					trig = append(trig, cname)
				}
			}
			sort.Strings(trig)
			x.w.Reg.AddAxiom(name, trig, t)
		}
	}
}
