package main

// Replay of counterexamples on the real code (DESIGN.md §5).
//
// For a failed obligation with a solver model, the inputs of the function under contract are read out of the
// model (parameters and everything reachable from them in the entry heap), rendered as Go composite literals,
// and a test is generated that calls the REAL function and evaluates the contract's postconditions (compiled
// from the contract text to Go) on the result. The test is injected with `go test -overlay`, so nothing is
// written to the repository. A failing test reproduces the violation; anything that cannot be concretised
// (ghost provenance, key stores, interface-typed inputs) is reported as no-failing-input-found.

import (
	"bytes"
	"context"
	"encoding/json"
	"fmt"
	"go/types"
	"os"
	"os/exec"
	"path/filepath"
	"sort"
	"strconv"
	"strings"
	"time"
)

// ---------- s-expressions ----------

type sx struct {
	atom string
	list []*sx
	isL  bool
}

func parseSx(s string) []*sx {
	var out []*sx
	i := 0
	var rd func() *sx
	skip := func() {
		for i < len(s) && (s[i] == ' ' || s[i] == '\n' || s[i] == '\t' || s[i] == '\r') {
			i++
		}
	}
	rd = func() *sx {
		skip()
		if i >= len(s) {
			return nil
		}
		if s[i] == '(' {
			i++
			n := &sx{isL: true}
			for {
				skip()
				if i >= len(s) {
					return n
				}
				if s[i] == ')' {
					i++
					return n
				}
				c := rd()
				if c == nil {
					return n
				}
				n.list = append(n.list, c)
			}
		}
		if s[i] == '|' {
			j := strings.IndexByte(s[i+1:], '|')
			if j < 0 {
				j = len(s) - i - 1
			}
			a := s[i : i+j+2]
			i += j + 2
			return &sx{atom: a}
		}
		if s[i] == '"' {
			j := i + 1
			for j < len(s) && s[j] != '"' {
				j++
			}
			a := s[i:min(j+1, len(s))]
			i = j + 1
			return &sx{atom: a}
		}
		j := i
		for j < len(s) && !strings.ContainsRune(" \n\t\r()", rune(s[j])) {
			j++
		}
		a := s[i:j]
		i = j
		return &sx{atom: a}
	}
	for {
		n := rd()
		if n == nil {
			break
		}
		out = append(out, n)
	}
	return out
}

func (n *sx) String() string {
	if !n.isL {
		return n.atom
	}
	var parts []string
	for _, c := range n.list {
		parts = append(parts, c.String())
	}
	return "(" + strings.Join(parts, " ") + ")"
}

func sxInt(n *sx) (int64, bool) {
	if !n.isL {
		v, err := strconv.ParseInt(n.atom, 10, 64)
		return v, err == nil
	}
	if len(n.list) == 2 && n.list[0].atom == "-" {
		v, ok := sxInt(n.list[1])
		return -v, ok
	}
	return 0, false
}

// ---------- query construction ----------

const dsigPath = "github.com/russellhaering/goxmldsig"

type qnode struct {
	ikind  string   // interface inputs that the replayer can realise: keystore, certstore, signer, canon
	aux    []*qnode // keystore: kpCert bytes
	auxT   []*Term  // keystore: kpKey == nil, kpErr == nil
	kind   string   // ptr, struct, string, int, bool, slice, iface, clock, skip
	t      types.Type
	term   *Term
	fields []*qnode // struct fields / slice elements
	names  []string
	elem   *qnode // ptr target
	lenT   *Term
	note   string
	keys   []*Term // map: candidate key terms
	hasT   []*Term // map: membership terms
	// filled from the model
	val string
}

type replayer struct {
	x        *Exec
	w        *World
	queries  []*Term
	qIndex   map[string]int
	notes    []string
	strs     map[string]*Term // Str-sorted leaf terms
	maxElem  int
	keyCands []*Term
}

func (r *replayer) q(t *Term) {
	if _, ok := r.qIndex[t.Key()]; ok {
		return
	}
	r.qIndex[t.Key()] = len(r.queries)
	r.queries = append(r.queries, t)
}

func (r *replayer) entryArr(key, elemSort string) *Term {
	return Var(fmt.Sprintf("%s@e0", key), ArraySort(SInt, elemSort))
}

func (r *replayer) entryRead(ref *Term, t types.Type) *Term {
	x := r.x
	if x.isStructPointee(t) {
		fs := x.w.StructFields(t)
		args := make([]*Term, len(fs))
		for i, f := range fs {
			args[i] = Select(r.entryArr(x.fieldKey(t, i), x.w.SortOf(f.Type)), ref)
		}
		return x.w.MkStruct(t, args)
	}
	return Select(r.entryArr(x.cellKey(t), x.w.heapElemSort(t)), ref)
}

func isNamed(t types.Type, pkg, name string) bool {
	n, ok := types.Unalias(t).(*types.Named)
	return ok && n.Obj().Pkg() != nil && n.Obj().Pkg().Path() == pkg && n.Obj().Name() == name
}

func (r *replayer) build(t types.Type, term *Term, depth int) *qnode {
	n := &qnode{t: t, term: term}
	if depth > 14 {
		n.kind = "skip"
		return n
	}
	switch u := types.Unalias(t).Underlying().(type) {
	case *types.Basic:
		switch {
		case u.Info()&types.IsString != 0:
			n.kind = "string"
			r.strs[term.Key()] = term
		case u.Info()&types.IsBoolean != 0:
			n.kind = "bool"
		case u.Info()&types.IsInteger != 0:
			n.kind = "int"
		default:
			n.kind = "skip"
			return n
		}
		r.q(term)
	case *types.Pointer:
		if isNamed(u.Elem(), "github.com/russellhaering/goxmldsig", "Clock") {
			n.kind = "clock"
			r.q(term)
			if _, ok := r.w.Reg.funcs["ghost:now"]; ok {
				n.lenT = r.w.Reg.Apply("ghost:now", term)
				r.q(n.lenT)
			}
			return n
		}
		n.kind = "ptr"
		r.q(term)
		if _, ok := types.Unalias(u.Elem()).Underlying().(*types.Struct); ok {
			n.elem = r.build(u.Elem(), r.entryRead(term, u.Elem()), depth+1)
		} else {
			n.elem = &qnode{kind: "skip", t: u.Elem()}
		}
	case *types.Struct:
		if isNamed(t, "time", "Time") || isNamed(t, "sync", "RWMutex") || isNamed(t, "encoding/xml", "Name") {
			n.kind = "skip"
			return n
		}
		n.kind = "struct"
		for _, f := range r.w.StructFields(t) {
			if f.Ghost {
				continue
			}
			n.names = append(n.names, f.Name)
			n.fields = append(n.fields, r.build(f.Type, r.w.Reg.Apply(f.Sel, term), depth+1))
		}
	case *types.Slice:
		n.kind = "slice"
		n.lenT = r.w.SlLen(term)
		r.q(n.lenT)
		for k := 0; k < r.maxElem; k++ {
			n.fields = append(n.fields, r.build(u.Elem(), r.w.SlAt(term, IntT(int64(k))), depth+1))
		}
	case *types.Interface:
		n.kind = "iface"
		r.q(Eq(term, r.w.INil()))
		switch {
		case isNamed(t, dsigPath, "X509KeyStore"):
			n.ikind = "keystore"
			_, k1 := r.w.Reg.funcs["ghost:kpKey"]
			_, k2 := r.w.Reg.funcs["ghost:kpErr"]
			_, k3 := r.w.Reg.funcs["ghost:kpCert"]
			if k1 && k2 && k3 {
				kk := Eq(r.w.Reg.Apply("ghost:kpKey", term), IntT(0))
				ke := Eq(r.w.Reg.Apply("ghost:kpErr", term), r.w.INil())
				r.q(kk)
				r.q(ke)
				n.auxT = []*Term{kk, ke}
				n.aux = []*qnode{r.build(types.NewSlice(types.Typ[types.Uint8]), r.w.Reg.Apply("ghost:kpCert", term), depth+1)}
			}
		case isNamed(t, dsigPath, "X509CertificateStore"):
			n.ikind = "certstore"
		case isNamed(t, "crypto", "Signer"):
			n.ikind = "signer"
		case isNamed(t, dsigPath, "Canonicalizer"):
			n.ikind = "canon"
		}
	case *types.Map:
		// a map is concretised at the candidate keys (the string-typed parameters of the function)
		n.kind = "map"
		r.q(term)
		mv := sliceBase(r.w.mapValSort(u))
		content := Select(r.entryArr(r.x.cellKey(t), r.w.heapElemSort(t)), term)
		if isString(u.Key()) {
			for _, kt := range r.keyCands {
				has := r.w.Reg.Apply("has:"+mv, content, kt)
				r.q(has)
				r.q(kt)
				n.names = append(n.names, has.Key())
				n.fields = append(n.fields, r.build(u.Elem(), r.w.Reg.Apply("get:"+mv, content, kt), depth+1))
				n.keys = append(n.keys, kt)
				n.hasT = append(n.hasT, has)
			}
		}
	default:
		n.kind = "skip"
	}
	return n
}

// ---------- model reading ----------

type model struct {
	vals    map[int]*sx
	strName map[string]string // universe element -> Go string text
}

func (r *replayer) value(m *model, t *Term) *sx {
	if i, ok := r.qIndex[t.Key()]; ok {
		return m.vals[i]
	}
	return nil
}

// goValue renders the model value of node n as a Go expression (in package pkgName).
func (r *replayer) goValue(m *model, n *qnode, pkgName string) string {
	tname := func(t types.Type) string {
		return types.TypeString(t, func(p *types.Package) string {
			if p.Name() == pkgName {
				return ""
			}
			return p.Name()
		})
	}
	switch n.kind {
	case "string":
		v := r.value(m, n.term)
		if v == nil {
			return `""`
		}
		if s, ok := m.strName[v.String()]; ok {
			return strconv.Quote(s)
		}
		return strconv.Quote("s-" + strings.Trim(v.String(), "|"))
	case "bool":
		v := r.value(m, n.term)
		if v != nil && v.atom == "true" {
			return "true"
		}
		return "false"
	case "int":
		v := r.value(m, n.term)
		if v != nil {
			if i, ok := sxInt(v); ok {
				return fmt.Sprintf("%d", i)
			}
		}
		return "0"
	case "clock":
		var ns int64
		if n.lenT != nil {
			if v := r.value(m, n.lenT); v != nil {
				ns, _ = sxInt(v)
			}
		}
		return fmt.Sprintf("dsig.NewFakeClockAt(verifReplayTime(%d))", ns)
	case "ptr":
		v := r.value(m, n.term)
		if v == nil {
			return "nil"
		}
		if i, ok := sxInt(v); ok && i == 0 {
			return "nil"
		}
		if n.elem == nil || n.elem.kind != "struct" {
			r.notes = append(r.notes, "pointer to "+tname(n.t)+" left nil (not concretised)")
			return "nil"
		}
		return "&" + r.goValue(m, n.elem, pkgName)
	case "struct":
		var parts []string
		st, _ := types.Unalias(n.t).Underlying().(*types.Struct)
		samePkg := false
		if nt, ok := types.Unalias(n.t).(*types.Named); ok && nt.Obj().Pkg() != nil && nt.Obj().Pkg().Name() == pkgName {
			samePkg = true
		}
		for i, f := range n.fields {
			name := n.names[i]
			if f.kind == "skip" || name == "_" {
				continue
			}
			exported := name != "" && name[0] >= 'A' && name[0] <= 'Z'
			if !exported && !samePkg {
				continue
			}
			_ = st
			gv := r.goValue(m, f, pkgName)
			if gv == "nil" || gv == `""` || gv == "false" || gv == "0" {
				continue
			}
			parts = append(parts, name+": "+gv)
		}
		return tname(n.t) + "{" + strings.Join(parts, ", ") + "}"
	case "slice":
		ln := int64(0)
		if v := r.value(m, n.lenT); v != nil {
			ln, _ = sxInt(v)
		}
		if ln == 0 {
			return "nil"
		}
		if ln > int64(len(n.fields)) {
			r.notes = append(r.notes, fmt.Sprintf("slice of length %d truncated to %d elements", ln, len(n.fields)))
			ln = int64(len(n.fields))
		}
		var parts []string
		for k := int64(0); k < ln; k++ {
			parts = append(parts, r.goValue(m, n.fields[k], pkgName))
		}
		return tname(n.t) + "{" + strings.Join(parts, ", ") + "}"
	case "map":
		v := r.value(m, n.term)
		if v == nil {
			return "nil"
		}
		if i, ok := sxInt(v); ok && i == 0 {
			return "nil"
		}
		var parts []string
		seenKey := map[string]bool{}
		for k, f := range n.fields {
			hv := r.value(m, n.hasT[k])
			if hv == nil || hv.atom != "true" {
				continue
			}
			kn := &qnode{kind: "string", term: n.keys[k]}
			ks := r.goValue(m, kn, pkgName)
			if seenKey[ks] {
				continue
			}
			seenKey[ks] = true
			parts = append(parts, ks+": "+r.goValue(m, f, pkgName))
		}
		return tname(n.t) + "{" + strings.Join(parts, ", ") + "}"
	case "iface":
		v := r.value(m, Eq(n.term, r.w.INil()))
		if v != nil && v.atom == "false" {
			switch n.ikind {
			case "keystore":
				key, cert, kerr := "verifTestKey", "nil", "nil"
				if len(n.auxT) == 2 {
					if kv := r.value(m, n.auxT[0]); kv != nil && kv.atom == "true" {
						key = "nil"
					}
					if ev := r.value(m, n.auxT[1]); ev != nil && ev.atom == "false" {
						kerr = `errors.New("verif: key store error")`
					}
					cert = r.goValue(m, n.aux[0], pkgName)
				}
				r.notes = append(r.notes, "dsig.X509KeyStore input realised by a stub returning the model's (key present?, certificate bytes, error)")
				return fmt.Sprintf("verifKS{key: %s, cert: %s, err: %s}", key, cert, kerr)
			case "certstore":
				return "&dsig.MemoryX509CertificateStore{}"
			case "signer":
				return "verifTestKey"
			case "canon":
				return "dsig.MakeC14N11Canonicalizer()"
			}
			r.notes = append(r.notes, "interface-typed input "+tname(n.t)+" is non-nil in the model but left nil (not concretised)")
		}
		return "nil"
	}
	return "nil"
}

// ---------- contract clause -> Go ----------

type goGen struct {
	w      *World
	sf     *SpecFile
	pkg    string
	unsup  string
	helper map[string]string
}

func (g *goGen) typ(st *SType) string { return st.String() }

func (g *goGen) helperKeys() map[string]bool {
	m := map[string]bool{}
	for k := range g.helper {
		m[k] = true
	}
	return m
}

// dropHelpersExcept removes the helpers generated while translating a clause that turned out to be untranslatable.
func (g *goGen) dropHelpersExcept(keep map[string]bool) {
	for k := range g.helper {
		if !keep[k] {
			delete(g.helper, k)
		}
	}
}

var ghostRuntime = map[string]bool{"kpKey": true, "kpCert": true, "kpErr": true, "x509ok": true, "x509NotBefore": true, "x509NotAfter": true, "parseOK": true, "instantOf": true, "now": true, "instant": true, "isUTC": true, "b64ok": true, "b64dec": true, "b64enc": true}

func (g *goGen) expr(e SExpr) string {
	switch n := e.(type) {
	case *SLit:
		switch n.Kind {
		case "string":
			return strconv.Quote(n.Val)
		case "nil":
			return "nil"
		default:
			return n.Val
		}
	case *SIdent:
		// a package-level name of another repository package (the clause comes from that package's contract file)
		if home := g.w.specPkg[g.sf]; home != nil && home.Name() != g.pkg {
			if o := home.Scope().Lookup(n.Name); o != nil && o.Exported() {
				return home.Name() + "." + n.Name
			}
		}
		return n.Name
	case *SUnary:
		return "(" + n.Op + g.expr(n.X) + ")"
	case *SBinary:
		a, b := g.expr(n.X), g.expr(n.Y)
		switch n.Op {
		case "==>":
			return "(!(" + a + ") || (" + b + "))"
		case "<==>":
			return "((" + a + ") == (" + b + "))"
		case "==", "!=":
			neg := ""
			if n.Op == "!=" {
				neg = "!"
			}
			if isNilLit(n.Y) {
				return "(" + neg + "verifIsNil(" + a + "))"
			}
			if isNilLit(n.X) {
				return "(" + neg + "verifIsNil(" + b + "))"
			}
			if !nativeCmp(n.X) && !nativeCmp(n.Y) {
				// values of unknown static type (slices, structs with slices, mixed interface types)
				return "(" + neg + "verifEqAny(" + a + ", " + b + "))"
			}
		}
		return "(" + a + " " + n.Op + " " + b + ")"
	case *SCond:
		if safeEager(n.A) && safeEager(n.B) {
			// both branches are total (literals, names, arithmetic): a typed, eagerly evaluated conditional
			return "verifTern(" + g.expr(n.C) + ", " + g.expr(n.A) + ", " + g.expr(n.B) + ")"
		}
		return "verifIte(" + g.expr(n.C) + ", func() any { return " + g.expr(n.A) + " }, func() any { return " + g.expr(n.B) + " })"
	case *SSelect:
		return g.expr(n.X) + "." + n.Sel
	case *SIndex:
		return g.expr(n.X) + "[" + g.expr(n.I) + "]"
	case *SIs:
		return "func() bool { _, ok := any(" + g.expr(n.X) + ").(" + g.typ(n.Type) + "); return ok }()"
	case *SAssert:
		return "func() " + g.typ(n.Type) + " { v, _ := any(" + g.expr(n.X) + ").(" + g.typ(n.Type) + "); return v }()"
	case *SComposite:
		var fs []string
		for _, f := range n.Fields {
			fs = append(fs, f.Name+": "+g.expr(f.Val))
		}
		return g.typ(n.Type) + "{" + strings.Join(fs, ", ") + "}"
	case *SCall:
		if ty := exprAsType(n.Fun); ty != nil && len(n.Args) == 1 {
			if _, err := g.w.ResolveType(g.sf, ty); err == nil {
				return "func() " + g.typ(ty) + " { v, _ := any(" + g.expr(n.Args[0]) + ").(" + g.typ(ty) + "); return v }()"
			}
		}
		id, ok := n.Fun.(*SIdent)
		if !ok {
			g.unsup = "call form"
			return "false"
		}
		var args []string
		for _, a := range n.Args {
			args = append(args, g.expr(a))
		}
		switch id.Name {
		case "len", "int", "int64", "string":
			return id.Name + "(" + strings.Join(args, ", ") + ")"
		case "old":
			return args[0] // replayed functions do not assign their inputs
		}
		if pf, ok := g.w.Pures[id.Name]; ok {
			g.pure(pf)
			return "verifP_" + id.Name + "(" + strings.Join(args, ", ") + ")"
		}
		if ghostRuntime[id.Name] {
			return "verifG_" + id.Name + "(" + strings.Join(args, ", ") + ")"
		}
		g.unsup = "ghost function " + id.Name + " has no run-time meaning"
		return "false"
	case *SQuant:
		if len(n.Vars) != 1 || n.Vars[0].Type.String() != "int" {
			g.unsup = "quantifier over a non-integer"
			return "false"
		}
		v := n.Vars[0].Name
		var guard []SExpr
		var body SExpr
		if n.Kind == "forall" {
			imp, ok := n.Body.(*SBinary)
			if !ok || imp.Op != "==>" {
				g.unsup = "forall without a range guard"
				return "false"
			}
			guard = flattenAnd(imp.X)
			body = imp.Y
		} else {
			guard = flattenAnd(n.Body)
		}
		var hi string
		var rest []string
		for _, c := range guard {
			if b, ok := c.(*SBinary); ok {
				if id, isID := b.X.(*SIdent); isID && id.Name == v && b.Op == "<" && hi == "" {
					hi = g.expr(b.Y)
					continue
				}
				if l, isL := b.X.(*SLit); isL && l.Val == "0" && b.Op == "<=" {
					if id, isID := b.Y.(*SIdent); isID && id.Name == v {
						continue
					}
				}
			}
			rest = append(rest, g.expr(c))
		}
		if hi == "" {
			g.unsup = "quantifier without an upper bound"
			return "false"
		}
		cond := "true"
		if len(rest) > 0 {
			cond = strings.Join(rest, " && ")
		}
		if n.Kind == "forall" {
			return fmt.Sprintf("func() bool { for %s := 0; %s < int(%s); %s++ { if (%s) && !(%s) { return false } }; return true }()", v, v, hi, v, cond, g.expr(body))
		}
		return fmt.Sprintf("func() bool { for %s := 0; %s < int(%s); %s++ { if %s { return true } }; return false }()", v, v, hi, v, cond)
	}
	g.unsup = fmt.Sprintf("expression %T", e)
	return "false"
}

func isNilLit(e SExpr) bool {
	l, ok := e.(*SLit)
	return ok && l.Kind == "nil"
}

// nativeCmp: the operand is a literal, arithmetic, a length or a boolean formula, so Go's == applies directly (and an
// untyped constant keeps its flexibility).
func nativeCmp(e SExpr) bool {
	switch n := e.(type) {
	case *SLit:
		return true
	case *SUnary:
		return true
	case *SBinary:
		return true
	case *SQuant, *SIs:
		return true
	case *SCond:
		return nativeCmp(n.A) || nativeCmp(n.B)
	case *SCall:
		if id, ok := n.Fun.(*SIdent); ok {
			switch id.Name {
			case "len", "int", "int64", "now", "instant", "instantOf", "parseOK", "isUTC", "b64ok", "x509ok", "x509NotBefore", "x509NotAfter":
				return true
			}
		}
	}
	return false
}

// safeEager: evaluating the expression cannot panic (no selection through a pointer, no indexing, no call).
func safeEager(e SExpr) bool {
	switch n := e.(type) {
	case *SLit, *SIdent:
		return true
	case *SUnary:
		return safeEager(n.X)
	case *SBinary:
		return n.Op != "/" && n.Op != "%" && safeEager(n.X) && safeEager(n.Y)
	case *SCond:
		return safeEager(n.C) && safeEager(n.A) && safeEager(n.B)
	}
	return false
}

func flattenAnd(e SExpr) []SExpr {
	if b, ok := e.(*SBinary); ok && b.Op == "&&" {
		return append(flattenAnd(b.X), flattenAnd(b.Y)...)
	}
	return []SExpr{e}
}

func (g *goGen) pure(pf *PureFunc) {
	name := "verifP_" + pf.Name
	if _, ok := g.helper[name]; ok {
		return
	}
	g.helper[name] = "" // reserve (recursion guard)
	var ps []string
	for _, p := range pf.Params {
		ps = append(ps, p.Name+" "+g.typ(p.Type))
	}
	save := g.sf
	g.sf = pureHome[pf]
	body := g.expr(pf.Body)
	g.sf = save
	rt := g.typ(pf.Result)
	if _, isCond := pf.Body.(*SCond); isCond {
		body = body + ".(" + rt + ")"
	}
	g.helper[name] = fmt.Sprintf("func %s(%s) %s { return %s }\n", name, strings.Join(ps, ", "), rt, body)
}

const replayRuntime = `
func verifReplayTime(ns int64) time.Time { return time.Unix(1700000000, 0).Add(time.Duration(ns)) }
func verifG_parseOK(s string) bool { _, err := time.Parse(time.RFC3339, s); return err == nil }
func verifG_instantOf(s string) int64 { t, err := time.Parse(time.RFC3339, s); if err != nil { return 0 }; return t.Sub(time.Unix(1700000000, 0)).Nanoseconds() }
func verifG_now(c *dsig.Clock) int64 { return c.Now().Sub(time.Unix(1700000000, 0)).Nanoseconds() }
func verifG_instant(t time.Time) int64 { return t.Sub(time.Unix(1700000000, 0)).Nanoseconds() }
func verifG_isUTC(t time.Time) bool { return t.Location() == time.UTC }
func verifG_b64ok(s string) bool { _, err := base64.StdEncoding.DecodeString(s); return err == nil }
func verifG_b64dec(s string) []byte { b, _ := base64.StdEncoding.DecodeString(s); return b }
func verifG_b64enc(b []byte) string { return base64.StdEncoding.EncodeToString(b) }
func verifIte(c bool, a, b func() any) any { if c { return a() }; return b() }
func verifTern[T any](c bool, a, b T) T { if c { return a }; return b }
func verifIsNil(a any) bool {
	if a == nil { return true }
	v := reflect.ValueOf(a)
	switch v.Kind() { case reflect.Ptr, reflect.Slice, reflect.Map, reflect.Interface, reflect.Func, reflect.Chan: return v.IsNil() }
	return false
}
// verifEqAny: == of the contract language on run-time values: identity for pointers, same nil-ness and elements for
// slices, numeric equality across integer types, deep equality otherwise.
func verifEqAny(a, b any) bool {
	if verifIsNil(a) || verifIsNil(b) { return verifIsNil(a) && verifIsNil(b) }
	va, vb := reflect.ValueOf(a), reflect.ValueOf(b)
	isInt := func(k reflect.Kind) bool { return k >= reflect.Int && k <= reflect.Int64 }
	isUint := func(k reflect.Kind) bool { return k >= reflect.Uint && k <= reflect.Uintptr }
	switch {
	case isInt(va.Kind()) && isInt(vb.Kind()): return va.Int() == vb.Int()
	case isUint(va.Kind()) && isUint(vb.Kind()): return va.Uint() == vb.Uint()
	case isInt(va.Kind()) && isUint(vb.Kind()): return va.Int() >= 0 && uint64(va.Int()) == vb.Uint()
	case isUint(va.Kind()) && isInt(vb.Kind()): return vb.Int() >= 0 && uint64(vb.Int()) == va.Uint()
	case va.Kind() == reflect.Ptr && vb.Kind() == reflect.Ptr: return va.Pointer() == vb.Pointer()
	case va.Kind() == reflect.String && vb.Kind() == reflect.String: return va.String() == vb.String()
	}
	return reflect.DeepEqual(a, b)
}
type verifKS struct { key *rsa.PrivateKey; cert []byte; err error }
func (k verifKS) GetKeyPair() (*rsa.PrivateKey, []byte, error) { return k.key, k.cert, k.err }
var verifTestKey = func() *rsa.PrivateKey { k, err := rsa.GenerateKey(rand.Reader, 1024); if err != nil { panic(err) }; return k }()
func verifG_kpKey(s dsig.X509KeyStore) *rsa.PrivateKey { if verifIsNil(s) { return nil }; k, _, _ := s.GetKeyPair(); return k }
func verifG_kpCert(s dsig.X509KeyStore) []byte { if verifIsNil(s) { return nil }; _, c, _ := s.GetKeyPair(); return c }
func verifG_kpErr(s dsig.X509KeyStore) error { if verifIsNil(s) { return nil }; _, _, e := s.GetKeyPair(); return e }
func verifG_x509ok(der []byte) bool { _, err := x509.ParseCertificate(der); return err == nil }
func verifG_x509NotBefore(der []byte) int64 { c, err := x509.ParseCertificate(der); if err != nil { return 0 }; return verifG_instant(c.NotBefore) }
func verifG_x509NotAfter(der []byte) int64 { c, err := x509.ParseCertificate(der); if err != nil { return 0 }; return verifG_instant(c.NotAfter) }
var _ = base64.StdEncoding
var _ = types.Response{}
var _ = dsig.NewFakeClockAt
`

// ---------- driver ----------

type replayPrep struct {
	res      map[string]interface{}
	ovPath   string
	testPath string
	notes    []string
	skipped  []string
	inputs   map[string]string
}

// replayPrepare builds the replay test from the counterexample (term construction is not concurrency-safe, so
// callers serialise it); replayRun executes it on the real code.
func replayPrepare(o *Options, w *World, ob *Obligation) *replayPrep {
	res := map[string]interface{}{"replayed_on_real_code": false}
	pr := &replayPrep{res: res}
	if !replayFill(o, w, ob, pr) {
		pr.ovPath = ""
	}
	return pr
}

func replayFill(o *Options, w *World, ob *Obligation, pr *replayPrep) bool {
	res := pr.res
	x := ob.ex
	if x == nil || (ob.Status != "failed" && ob.Status != "undecided") || ob.Script == nil {
		return false
	}
	fn := x.top
	if fn.Pkg == nil || fn.Pkg.Pkg.Path() != repoModule {
		res["replay_note"] = "replay adapters exist for the root package only"
		return false
	}
	pkgName := fn.Pkg.Pkg.Name()
	r := &replayer{x: x, w: w, qIndex: map[string]int{}, strs: map[string]*Term{}, maxElem: 3}
	var roots []*qnode
	var pnames []string
	for _, p := range fn.Params {
		if isString(p.Type()) {
			if v := x.params[p.Name()]; v.Term != nil {
				r.keyCands = append(r.keyCands, v.Term)
				r.strs[v.Term.Key()] = v.Term
			}
		}
	}
	for _, p := range fn.Params {
		v := x.params[p.Name()]
		if v.Term == nil {
			res["replay_note"] = "parameter " + p.Name() + " has no term"
			return false
		}
		roots = append(roots, r.build(p.Type(), v.Term, 0))
		pnames = append(pnames, p.Name())
	}
	// string metadata
	var strKeys []string
	for k := range r.strs {
		strKeys = append(strKeys, k)
	}
	sort.Strings(strKeys)
	type strMeta struct{ ok, inst *Term }
	meta := map[string]strMeta{}
	_, hasParse := w.Reg.funcs["ghost:parseOK"]
	for _, k := range strKeys {
		t := r.strs[k]
		if hasParse && strings.Contains(ob.Script.Text, "ghost!parseOK") {
			sm := strMeta{ok: w.Reg.Apply("ghost:parseOK", t), inst: w.Reg.Apply("ghost:instantOf", t)}
			r.q(sm.ok)
			r.q(sm.inst)
			meta[k] = sm
		}
	}
	// literal strings that occur in the VC
	var lits []*Term
	for name := range ob.Script.Consts {
		if w.Reg.strLits[name] != nil {
			lt := Var(name, SStr)
			lits = append(lits, lt)
			r.q(lt)
		}
	}
	// solve again with the queries (try small slices first so that the input is short)
	var asserts []*Term
	seen := map[string]bool{}
	for _, a := range ob.PC {
		if !seen[a.Key()] {
			seen[a.Key()] = true
			asserts = append(asserts, a)
		}
	}
	asserts = append(asserts, Not(ob.Goal))
	var out string
	var sat bool
	// Attempts: the full hypotheses with small / unbounded slices; then, when the solver gives no model (quantified
	// hypotheses make it answer unknown), a CANDIDATE model of the quantifier-free part only (quantified axioms,
	// invariants and the quantified parts of the goal dropped). A candidate counts for nothing by itself: it is
	// reported only if the generated test reproduces the violation on the real code.
	type attempt struct {
		bound   int64
		relaxed bool
	}
	attempts := []attempt{{2, false}, {3, false}, {-1, false}, {2, true}, {3, true}, {-1, true}}
	if ob.Status == "undecided" {
		attempts = attempts[3:]
	}
	for _, at := range attempts {
		bound := at.bound
		src := asserts
		if at.relaxed {
			src = nil
			for _, a := range asserts {
				if !termHasQuant(a, map[int]bool{}) {
					src = append(src, a)
				}
			}
			for _, q := range r.queries {
				if q.K == KApp && strings.HasPrefix(q.Name, "len:") {
					src = append(src, Ge(q, IntT(0)))
				}
			}
			w.Reg.noQuantAxioms = true
			res["replay_candidate_model"] = "model of the quantifier-free part of the hypotheses only; it is reported because the test below reproduces (or fails to reproduce) the violation on the real code"
		}
		as := append([]*Term{}, src...)
		if bound > 0 {
			for _, q := range r.queries {
				if q.K == KApp && strings.HasPrefix(q.Name, "len:") {
					as = append(as, Le(q, IntT(bound)))
				}
			}
		}
		sc := w.Reg.BuildScriptQ(as, r.queries)
		w.Reg.noQuantAxioms = false
		path := filepath.Join(o.verif, "out", "vc", "replay-"+fmt.Sprintf("%d", time.Now().UnixNano())+".smt2")
		os.MkdirAll(filepath.Dir(path), 0o755)
		os.WriteFile(path, []byte("(set-option :produce-models true)\n"+sc.Text), 0o644)
		ctx, cancel := context.WithTimeout(context.Background(), 20*time.Second)
		cmd := exec.CommandContext(ctx, "z3-new", "-T:15", path)
		var buf bytes.Buffer
		cmd.Stdout = &buf
		cmd.Run()
		cancel()
		os.Remove(path)
		out = buf.String()
		if strings.HasPrefix(strings.TrimSpace(out), "sat") {
			sat = true
			break
		}
	}
	if !sat {
		res["replay_note"] = "the solver gave no model for the value queries"
		return false
	}
	vals := parseSx(out[strings.Index(out, "sat")+3:])
	m := &model{vals: map[int]*sx{}, strName: map[string]string{}}
	if len(vals) > 0 && vals[0].isL {
		for i, pair := range vals[0].list {
			if pair.isL && len(pair.list) == 2 {
				m.vals[i] = pair.list[1]
			}
		}
	}
	if len(m.vals) != len(r.queries) {
		res["replay_note"] = fmt.Sprintf("could not read the model (%d values for %d queries)", len(m.vals), len(r.queries))
		return false
	}
	for _, lt := range lits {
		if v := r.value(m, lt); v != nil {
			m.strName[v.String()] = *w.Reg.strLits[lt.Name]
		}
	}
	// non-literal strings: RFC 3339 renderings where the model says they parse, distinct junk otherwise
	for _, k := range strKeys {
		v := r.value(m, r.strs[k])
		if v == nil {
			continue
		}
		if _, named := m.strName[v.String()]; named {
			continue
		}
		if sm, ok := meta[k]; ok {
			okv := r.value(m, sm.ok)
			iv := r.value(m, sm.inst)
			if okv != nil && okv.atom == "true" && iv != nil {
				ns, _ := sxInt(iv)
				m.strName[v.String()] = time.Unix(1700000000, 0).Add(time.Duration(ns)).UTC().Format(time.RFC3339Nano)
				continue
			}
		}
		m.strName[v.String()] = "v" + strings.Trim(strings.ReplaceAll(v.String(), "Str!val!", "-"), "|")
	}
	// inputs
	var decls []string
	inputs := map[string]string{}
	for i, n := range roots {
		gv := r.goValue(m, n, pkgName)
		if gv == "nil" {
			gv = "(" + types.TypeString(n.t, func(p *types.Package) string {
				if p.Name() == pkgName {
					return ""
				}
				return p.Name()
			}) + ")(nil)"
		}
		decls = append(decls, fmt.Sprintf("\tvar %s %s = %s", pnames[i], types.TypeString(n.t, func(p *types.Package) string {
			if p.Name() == pkgName {
				return ""
			}
			return p.Name()
		}), gv))
		inputs[pnames[i]] = gv
	}
	// call expression
	spec := x.spec
	var resNames []string
	for _, rp := range spec.Results {
		resNames = append(resNames, rp.Name)
	}
	sig := fn.Signature
	call := fn.Name() + "("
	args := pnames
	if sig.Recv() != nil {
		call = pnames[0] + "." + fn.Name() + "("
		args = pnames[1:]
	}
	call += strings.Join(args, ", ") + ")"
	// oracle: every translatable ensures clause of the function
	g := &goGen{w: w, sf: funcHome[spec], pkg: pkgName, helper: map[string]string{}}
	var checks []string
	var skipped []string
	for ci, c := range spec.Ensures {
		label := c.Label
		if label == "" {
			label = fmt.Sprintf("e%d", ci)
		}
		g.unsup = ""
		before := g.helperKeys()
		code := g.expr(c.Expr)
		if g.unsup != "" {
			g.dropHelpersExcept(before)
			skipped = append(skipped, label+": "+g.unsup)
			continue
		}
		checks = append(checks, fmt.Sprintf("\tif !(%s) { bad = append(bad, %q) }", code, label))
	}
	// preconditions: the input must satisfy every requires clause that has a run-time meaning (a full solver model
	// does by construction; a candidate model need not). A candidate that cannot be checked against a quantified,
	// untranslatable precondition is not replayed.
	var pres []string
	_, candidate := res["replay_candidate_model"]
	for ci, c := range spec.Requires {
		label := c.Label
		if label == "" {
			label = fmt.Sprintf("r%d", ci)
		}
		g.unsup = ""
		before := g.helperKeys()
		code := g.expr(c.Expr)
		if g.unsup != "" {
			g.dropHelpersExcept(before)
			if candidate && strings.Contains(c.Text, "forall") {
				res["replay_note"] = "candidate model not replayed: precondition " + label + " is quantified and has no run-time meaning"
				return false
			}
			continue
		}
		pres = append(pres, fmt.Sprintf("	if !(%s) { t.Skipf(\"VERIF-REPLAY-PRECONDITION: the input does not satisfy precondition %%s\", %q) }", code, label))
	}
	g.unsup = ""
	if len(checks) == 0 && !strings.HasPrefix(ob.Kind, "safe") {
		res["replay_note"] = "no postcondition of this function has a run-time meaning: " + strings.Join(skipped, "; ")
		return false
	}
	var helpers []string
	var hnames []string
	for k := range g.helper {
		hnames = append(hnames, k)
	}
	sort.Strings(hnames)
	for _, k := range hnames {
		helpers = append(helpers, g.helper[k])
	}
	lhs := ""
	if len(resNames) > 0 {
		lhs = strings.Join(resNames, ", ") + " := "
	}
	var use []string
	for _, n := range append(append([]string{}, pnames...), resNames...) {
		use = append(use, "_ = "+n)
	}
	src := fmt.Sprintf(`package %s

import (
	"crypto"
	"crypto/rand"
	"crypto/rsa"
	"crypto/x509"
	"encoding/base64"
	"errors"
	"reflect"
	"testing"
	"time"

	"github.com/russellhaering/gosaml2/types"
	dsig "github.com/russellhaering/goxmldsig"
)

var _ crypto.Signer
var _ = errors.New
var _ *rsa.PrivateKey
var _ types.Response

// generated by govc from the counterexample of obligation %s
%s
%s
func TestVerifReplay(t *testing.T) {
%s
	defer func() {
		if r := recover(); r != nil {
			t.Fatalf("VERIF-REPLAY-VIOLATION: the real code panics on the counterexample input: %%v", r)
		}
	}()
%s
	%s%s
	%s
	var bad []string
%s
	if len(bad) > 0 {
		t.Fatalf("VERIF-REPLAY-VIOLATION: postcondition(s) %%v are false on the real code for the counterexample input", bad)
	}
}
`, pkgName, ob.Func+"/"+ob.Name, replayRuntime, strings.Join(helpers, "\n"), strings.Join(decls, "\n"), strings.Join(pres, "\n"), lhs, call, strings.Join(use, "; "), strings.Join(checks, "\n"))
	dir := filepath.Join(o.verif, "out", "replays", "src")
	os.MkdirAll(dir, 0o755)
	base := strings.NewReplacer("/", "_", " ", "_", "*", "", "(", "", ")", "", "#", "-", "@", "-").Replace(ob.Func + "." + ob.Name)
	testPath := filepath.Join(dir, base+"_test.go")
	os.WriteFile(testPath, []byte(src), 0o644)
	ov := map[string]map[string]string{"Replace": {filepath.Join(o.repo, "zz_verif_replay_test.go"): testPath}}
	ovb, _ := json.Marshal(ov)
	ovPath := filepath.Join(dir, base+".overlay.json")
	os.WriteFile(ovPath, ovb, 0o644)
	pr.ovPath, pr.testPath, pr.notes, pr.skipped, pr.inputs = ovPath, testPath, r.notes, skipped, inputs
	return true
}

func replayRun(o *Options, pr *replayPrep) map[string]interface{} {
	res := pr.res
	if pr.ovPath == "" {
		return res
	}
	ovPath, testPath, inputs, skipped := pr.ovPath, pr.testPath, pr.inputs, pr.skipped
	r := struct{ notes []string }{pr.notes}
	ctx, cancel := context.WithTimeout(context.Background(), 180*time.Second)
	defer cancel()
	cmd := exec.CommandContext(ctx, "go", "test", "-overlay", ovPath, "-vet=off", "-count=1", "-timeout", "60s", "-v", "-run", "^TestVerifReplay$", ".")
	cmd.Dir = o.repo
	cmd.Env = append(os.Environ(), "GOFLAGS=-mod=mod", "GOPROXY=off", "GOSUMDB=off", "GOTOOLCHAIN=local")
	var tb bytes.Buffer
	cmd.Stdout = &tb
	cmd.Stderr = &tb
	err := cmd.Run()
	tout := tb.String()
	if len(tout) > 3000 {
		tout = tout[:3000]
	}
	res["replay_inputs"] = inputs
	res["replay_test"] = testPath
	res["replay_cmd"] = fmt.Sprintf("cd %s && go test -overlay %s -vet=off -count=1 -run '^TestVerifReplay$' .", o.repo, ovPath)
	res["replay_output"] = tout
	res["replay_notes"] = r.notes
	res["replay_skipped_clauses"] = skipped
	switch {
	case strings.Contains(tout, "VERIF-REPLAY-VIOLATION"):
		res["replayed_on_real_code"] = true
		res["reproduced"] = true
	case strings.Contains(tout, "VERIF-REPLAY-PRECONDITION"):
		res["replayed_on_real_code"] = false
		res["reproduced"] = false
		res["replay_note"] = "the candidate input does not satisfy the function's preconditions; not a counterexample"
	case err == nil:
		res["replayed_on_real_code"] = true
		res["reproduced"] = false
		res["replay_note"] = "the real code satisfies the translatable postconditions on this input (the counterexample concerns an intermediate obligation or an abstraction the replay cannot realise)"
	default:
		res["replay_note"] = "the generated replay test did not build or run"
	}
	return res
}

func min(a, b int) int {
	if a < b {
		return a
	}
	return b
}
