package main

// Loops: natural-loop detection on the SSA CFG, modified-location analysis, and cutting at
// loop headers with invariants (or complete unrolling when the trip count is concrete).

import (
	"fmt"
	"go/token"
	"go/types"
	"sort"
	"strings"

	"golang.org/x/tools/go/ssa"
)

type loop struct {
	header   *ssa.BasicBlock
	body     map[*ssa.BasicBlock]bool // includes header
	ordinal  int
	rangeIdx *ssa.Alloc // rangeindex cell for range-over-slice loops
	rangeLen ssa.Value  // the len value compared against
	countIdx *ssa.Alloc // the counter cell of a `for i := a; i < n; i++` loop
}

type loopInfo struct {
	byHeader map[*ssa.BasicBlock]*loop
	loops    []*loop
}

func (x *Exec) loopsOf(fn *ssa.Function) *loopInfo {
	if li, ok := x.loops[fn]; ok {
		return li
	}
	li := &loopInfo{byHeader: map[*ssa.BasicBlock]*loop{}}
	for _, b := range fn.Blocks {
		for _, succ := range b.Succs {
			if succ.Dominates(b) { // back edge b -> succ
				lp := li.byHeader[succ]
				if lp == nil {
					lp = &loop{header: succ, body: map[*ssa.BasicBlock]bool{succ: true}}
					li.byHeader[succ] = lp
					li.loops = append(li.loops, lp)
				}
				// natural loop: all blocks that reach b without passing through header
				stack := []*ssa.BasicBlock{b}
				for len(stack) > 0 {
					n := stack[len(stack)-1]
					stack = stack[:len(stack)-1]
					if lp.body[n] {
						continue
					}
					lp.body[n] = true
					stack = append(stack, n.Preds...)
				}
			}
		}
	}
	sort.Slice(li.loops, func(i, j int) bool { return li.loops[i].header.Index < li.loops[j].header.Index })
	for i, lp := range li.loops {
		lp.ordinal = i
		// range-over-slice pattern: header = { t = *idx; t2 = t + 1; *idx = t2; c = t2 < len; if c ... }
		if len(lp.header.Instrs) >= 5 {
			if ld, ok := lp.header.Instrs[0].(*ssa.UnOp); ok && ld.Op == token.MUL {
				if al, ok := ld.X.(*ssa.Alloc); ok && al.Comment == "rangeindex" {
					lp.rangeIdx = al
					if iff, ok := lp.header.Instrs[len(lp.header.Instrs)-1].(*ssa.If); ok {
						if cmp, ok := iff.Cond.(*ssa.BinOp); ok && cmp.Op == token.LSS {
							lp.rangeLen = cmp.Y
						}
					}
				}
			}
		}
	}
	// counting-loop pattern: `for i := a; i < n; i++`: the header compares a load of a local cell, and the only
	// store to that cell inside the loop adds 1 to its own value. $i is then the current value of the cell.
	for _, lp := range li.loops {
		if lp.rangeIdx != nil {
			continue
		}
		iff, ok := lp.header.Instrs[len(lp.header.Instrs)-1].(*ssa.If)
		if !ok {
			continue
		}
		cmp, ok := iff.Cond.(*ssa.BinOp)
		if !ok || cmp.Op != token.LSS {
			continue
		}
		ld, ok := cmp.X.(*ssa.UnOp)
		if !ok || ld.Op != token.MUL {
			continue
		}
		al, ok := ld.X.(*ssa.Alloc)
		if !ok {
			continue
		}
		stores, incs := 0, 0
		for b := range lp.body {
			for _, in := range b.Instrs {
				if st, ok := in.(*ssa.Store); ok && st.Addr == al {
					stores++
					if add, ok := st.Val.(*ssa.BinOp); ok && add.Op == token.ADD {
						if l2, ok := add.X.(*ssa.UnOp); ok && l2.X == al {
							if c, ok := add.Y.(*ssa.Const); ok && c.Value != nil && c.Value.ExactString() == "1" {
								incs++
							}
						}
					}
				}
			}
		}
		if stores == 1 && incs == 1 {
			lp.countIdx = al
		}
	}
	x.loops[fn] = li
	return li
}

// modSet describes what a region of code may write.
type modSet struct {
	allocs map[*ssa.Alloc]bool     // local cells of the analysed function (by Alloc)
	free   map[int]bool            // free variables (closure) written through
	fields map[string]map[int]bool // heap key -> field indices (-1 = whole object)
	heapT  map[string]types.Type
	bases  map[string]map[int]*baseSet // which objects: unknown (any), given SSA pointer values, objects allocated in the region
	all    bool                        // unknown callee: anything
}

type baseSet struct {
	unknown bool
	vals    []ssa.Value
	fresh   bool
}

func newModSet() *modSet {
	return &modSet{allocs: map[*ssa.Alloc]bool{}, free: map[int]bool{}, fields: map[string]map[int]bool{}, heapT: map[string]types.Type{},
		bases: map[string]map[int]*baseSet{}}
}

func (m *modSet) base(k string, f int) *baseSet {
	if m.bases[k] == nil {
		m.bases[k] = map[int]*baseSet{}
	}
	if m.bases[k][f] == nil {
		m.bases[k][f] = &baseSet{}
	}
	return m.bases[k][f]
}

// addFieldObj: field f of the object pointed to by SSA value v (or of objects allocated in the region) is written.
func (m *modSet) addFieldObj(w *World, t types.Type, f int, v ssa.Value, fresh bool) {
	m.addFieldRaw(w, t, f)
	k := w.heapKey(t)
	if mp, ok := types.Unalias(t).Underlying().(*types.Map); ok {
		k = "HM:" + mangleSort(w.mapValSort(mp))
	}
	b := m.base(k, f)
	if fresh {
		b.fresh = true
	} else if v == nil {
		b.unknown = true
	} else {
		b.vals = append(b.vals, v)
	}
}

// addField: field f of some object of type t (which one is unknown) is written.
func (m *modSet) addField(w *World, t types.Type, f int) {
	m.addFieldObj(w, t, f, nil, false)
}

func (m *modSet) addFieldRaw(w *World, t types.Type, f int) {
	k := w.heapKey(t)
	if mp, ok := types.Unalias(t).Underlying().(*types.Map); ok {
		k = "HM:" + mangleSort(w.mapValSort(mp))
	}
	if m.fields[k] == nil {
		m.fields[k] = map[int]bool{}
	}
	m.fields[k][f] = true
	m.heapT[k] = t
}

// mergeUnknown folds the writes of an inlined callee / closure into m; which objects they hit is not
// tracked across the call boundary, except that objects allocated there are new.
func (m *modSet) mergeUnknown(sub *modSet) {
	for k, fs := range sub.fields {
		for f := range fs {
			if m.fields[k] == nil {
				m.fields[k] = map[int]bool{}
			}
			m.fields[k][f] = true
			m.heapT[k] = sub.heapT[k]
			sb := sub.base(k, f)
			b := m.base(k, f)
			if sb.unknown || len(sb.vals) > 0 {
				b.unknown = true
			}
			if sb.fresh {
				b.fresh = true
			}
		}
	}
}

// addrRoot classifies the target of a store.
func (x *Exec) addrRoot(m *modSet, addr ssa.Value, firstField int) {
	switch a := addr.(type) {
	case *ssa.Alloc:
		m.allocs[a] = true
		if a.Heap && !x.cellLike(a) {
			m.addFieldObj(x.w, a.Type().(*types.Pointer).Elem(), firstField, a, false)
		}
	case *ssa.FreeVar:
		for i, fv := range a.Parent().FreeVars {
			if fv == a {
				m.free[i] = true
			}
		}
	case *ssa.FieldAddr:
		// the outermost struct that is a heap object determines the heap map; track the first field
		switch a.X.(type) {
		case *ssa.Alloc, *ssa.FreeVar, *ssa.FieldAddr, *ssa.IndexAddr:
			x.addrRoot(m, a.X, a.Field)
			if al, ok := a.X.(*ssa.Alloc); ok && al.Heap && !x.cellLike(al) {
				// handled by recursive call with field index
			}
		default:
			pt := types.Unalias(a.X.Type()).Underlying().(*types.Pointer)
			m.addFieldObj(x.w, pt.Elem(), a.Field, a.X, false)
		}
	case *ssa.IndexAddr:
		switch a.X.(type) {
		case *ssa.Alloc, *ssa.FreeVar, *ssa.FieldAddr, *ssa.IndexAddr:
			x.addrRoot(m, a.X, firstField)
		default:
			if pt, ok := types.Unalias(a.X.Type()).Underlying().(*types.Pointer); ok {
				m.addField(x.w, pt.Elem(), -1)
			} else {
				m.all = true // store through a slice element
			}
		}
	case *ssa.Global:
		m.all = true
	default:
		// pointer obtained from a load / call / parameter: a heap object of the pointee type
		if pt, ok := types.Unalias(addr.Type()).Underlying().(*types.Pointer); ok {
			m.addField(x.w, pt.Elem(), firstField)
		} else {
			m.all = true
		}
	}
}

func (x *Exec) modsOfBlocks(fn *ssa.Function, blocks map[*ssa.BasicBlock]bool, seen map[*ssa.Function]bool) *modSet {
	m := newModSet()
	for _, b := range fn.Blocks {
		if blocks != nil && !blocks[b] {
			continue
		}
		for _, in := range b.Instrs {
			switch i := in.(type) {
			case *ssa.Store:
				x.addrRoot(m, i.Addr, -1)
			case *ssa.MapUpdate:
				m.addField(x.w, i.Map.Type(), -1)
			case *ssa.Alloc:
				if i.Heap && !x.cellLike(i) {
					m.addFieldObj(x.w, i.Type().(*types.Pointer).Elem(), -1, nil, true)
				}
			case *ssa.MakeMap:
				m.addFieldObj(x.w, i.Type(), -1, nil, true)
			case ssa.CallInstruction:
				x.modsOfCall(m, fn, i, seen)
			}
		}
	}
	return m
}

func (x *Exec) modsOfCall(m *modSet, fn *ssa.Function, ci ssa.CallInstruction, seen map[*ssa.Function]bool) {
	c := ci.Common()
	if c.IsInvoke() {
		key := funcKeyOf(c.Method)
		x.modsOfSpec(m, x.w.FuncSpecs[key], key, ci)
		return
	}
	switch v := c.Value.(type) {
	case *ssa.Builtin:
		return
	case *ssa.Function:
		x.modsOfStatic(m, v, ci, seen)
		// closures passed as arguments to in-repo inlined callees or iterator schemas are executed too
		for _, a := range c.Args {
			if mc := findClosure(a, 0); mc != nil {
				x.modsOfClosure(m, fn, mc, seen)
			}
		}
		return
	case *ssa.MakeClosure:
		x.modsOfClosure(m, fn, v, seen)
		return
	default:
		// call through a local holding a closure: find MakeClosure stores into that cell
		if ld, ok := c.Value.(*ssa.UnOp); ok {
			if al, ok := ld.X.(*ssa.Alloc); ok {
				found := false
				for _, r := range *al.Referrers() {
					if st, ok := r.(*ssa.Store); ok && st.Addr == al {
						if mc, ok := st.Val.(*ssa.MakeClosure); ok {
							x.modsOfClosure(m, fn, mc, seen)
							found = true
						}
					}
				}
				if found {
					return
				}
			}
		}
		m.all = true
	}
}

// actualArgType finds the static type of the actual argument bound to spec parameter `name`
// (looking through a conversion to an interface type).
func (x *Exec) actualArgType(spec *FuncSpec, name string, ci ssa.CallInstruction) types.Type {
	c := ci.Common()
	var actual []ssa.Value
	if c.IsInvoke() {
		actual = append(actual, c.Value)
	}
	actual = append(actual, c.Args...)
	k := 0
	if spec.Recv != nil {
		if spec.Recv.Name == name && len(actual) > 0 {
			return throughIface(actual[0])
		}
		k = 1
	}
	for i, p := range spec.Params {
		if p.Name == name && k+i < len(actual) {
			return throughIface(actual[k+i])
		}
	}
	return nil
}

func throughIface(v ssa.Value) types.Type {
	if mi, ok := v.(*ssa.MakeInterface); ok {
		return mi.X.Type()
	}
	if _, isI := types.Unalias(v.Type()).Underlying().(*types.Interface); isI {
		return nil
	}
	return v.Type()
}

func (x *Exec) modsOfStatic(m *modSet, callee *ssa.Function, ci ssa.CallInstruction, seen map[*ssa.Function]bool) {
	key := fnKey(callee)
	spec := x.w.FuncSpecs[key]
	inRepo := callee.Pkg != nil && len(callee.Blocks) > 0 && callee.Pkg.Pkg != nil && len(callee.Pkg.Pkg.Path()) >= len(repoModule) && callee.Pkg.Pkg.Path()[:len(repoModule)] == repoModule
	if spec != nil && !(spec.Inline && inRepo) {
		x.modsOfSpec(m, spec, key, ci)
		return
	}
	if !inRepo {
		var ats []types.Type
		for _, a := range ci.Common().Args {
			ats = append(ats, a.Type())
		}
		reach, all := x.w.reachTypes(ats)
		if all {
			m.all = true
			return
		}
		for _, t := range reach {
			m.addField(x.w, t, -1)
		}
		return
	}
	if seen[callee] {
		return
	}
	seen[callee] = true
	sub := x.modsOfBlocks(callee, nil, seen)
	m.all = m.all || sub.all
	m.mergeUnknown(sub)
}

func (x *Exec) modsOfClosure(m *modSet, parent *ssa.Function, mc *ssa.MakeClosure, seen map[*ssa.Function]bool) {
	cf := mc.Fn.(*ssa.Function)
	if seen[cf] {
		return
	}
	seen[cf] = true
	sub := x.modsOfBlocks(cf, nil, seen)
	m.all = m.all || sub.all
	m.mergeUnknown(sub)
	for fi := range sub.free {
		x.addrRoot(m, mc.Bindings[fi], -1)
	}
}

func (x *Exec) modsOfSpec(m *modSet, spec *FuncSpec, key string, ci ssa.CallInstruction) {
	if spec == nil {
		m.all = true
		return
	}
	if iterSpecKeys[key] {
		return // the handler closure is accounted for at the call site
	}
	for _, a := range spec.Assigns {
		if a.All {
			m.all = true
			return
		}
		if a.Owner != nil {
			t, err := x.w.ResolveType(funcHome[spec], a.Owner)
			if err != nil {
				m.all = true
				return
			}
			for i, f := range x.w.StructFields(t) {
				if f.Name == a.Field {
					m.addField(x.w, t, i)
				}
			}
			continue
		}
		// assigns *p for an interface-typed parameter: the pointee of the actual argument
		if u, ok := a.Expr.(*SUnary); ok && u.Op == "*" {
			if id, ok := u.X.(*SIdent); ok && ci != nil {
				if at := x.actualArgType(spec, id.Name, ci); at != nil {
					if pt, ok := types.Unalias(at).Underlying().(*types.Pointer); ok {
						m.addFieldObj(x.w, pt.Elem(), -1, x.actualArgVal(spec, id.Name, ci), false)
						continue
					}
				}
			}
		}
		// assigns x.f : resolve the static type of x from the spec parameter types
		if !x.modsOfAssignExpr(m, spec, a.Expr, ci) {
			m.all = true
		}
	}
	// freshly allocated results: new objects of the result's pointee type
	if ci != nil && len(spec.Fresh) > 0 && ci.Value() != nil {
		rt := ci.Value().Type()
		if tup, ok := rt.(*types.Tuple); ok && tup.Len() > 0 {
			rt = tup.At(0).Type()
		}
		if pt, ok := types.Unalias(rt).Underlying().(*types.Pointer); ok {
			if _, isS := types.Unalias(pt.Elem()).Underlying().(*types.Struct); isS {
				m.addFieldObj(x.w, pt.Elem(), -1, nil, true)
			}
		}
	}
}

func (x *Exec) modsOfAssignExpr(m *modSet, spec *FuncSpec, e SExpr, ci ssa.CallInstruction) bool {
	sel, ok := e.(*SSelect)
	if !ok {
		return false
	}
	var baseVal ssa.Value
	if id, isID := sel.X.(*SIdent); isID && ci != nil {
		baseVal = x.actualArgVal(spec, id.Name, ci)
	}
	t := x.staticSpecType(spec, sel.X)
	if t == nil {
		return false
	}
	if p, ok := types.Unalias(t).Underlying().(*types.Pointer); ok {
		t = p.Elem()
	}
	for i, f := range x.w.StructFields(t) {
		if f.Name == sel.Sel {
			m.addFieldObj(x.w, t, i, baseVal, false)
			return true
		}
	}
	return false
}

// actualArgVal: the SSA value bound to spec parameter `name` at call ci (looking through interface boxing).
func (x *Exec) actualArgVal(spec *FuncSpec, name string, ci ssa.CallInstruction) ssa.Value {
	c := ci.Common()
	var actual []ssa.Value
	if c.IsInvoke() {
		actual = append(actual, c.Value)
	}
	actual = append(actual, c.Args...)
	pick := func(v ssa.Value) ssa.Value {
		if mi, ok := v.(*ssa.MakeInterface); ok {
			return mi.X
		}
		return v
	}
	k := 0
	if spec.Recv != nil {
		if spec.Recv.Name == name && len(actual) > 0 {
			return pick(actual[0])
		}
		k = 1
	}
	for i, p := range spec.Params {
		if p.Name == name && k+i < len(actual) {
			return pick(actual[k+i])
		}
	}
	return nil
}

func (x *Exec) staticSpecType(spec *FuncSpec, e SExpr) types.Type {
	sf := funcHome[spec]
	switch v := e.(type) {
	case *SIdent:
		if spec.Recv != nil && spec.Recv.Name == v.Name {
			t, _ := x.w.ResolveType(sf, spec.Recv.Type)
			return t
		}
		for _, p := range append(append([]SParam{}, spec.Params...), spec.Results...) {
			if p.Name == v.Name {
				t, _ := x.w.ResolveType(sf, p.Type)
				return t
			}
		}
	case *SAssert:
		t, err := x.w.ResolveType(sf, v.Type)
		if err != nil {
			return nil
		}
		return t
	case *SSelect:
		t := x.staticSpecType(spec, v.X)
		if t == nil {
			return nil
		}
		if p, ok := types.Unalias(t).Underlying().(*types.Pointer); ok {
			t = p.Elem()
		}
		for _, f := range x.w.StructFields(t) {
			if f.Name == v.Sel {
				return f.Type
			}
		}
	}
	return nil
}

// havocMods forgets everything in m (cells of the current frame, heap fields).
func (x *Exec) havocMods(s *State, fr *Frame, m *modSet, blocks map[*ssa.BasicBlock]bool) {
	var keep map[*ssa.Alloc]bool
	if m.all {
		x.havocAllHeap(s)
	}
	for a := range m.allocs {
		if keep[a] {
			continue
		}
		if c, ok := fr.cells[a]; ok {
			cur := s.cellVal[c]
			if cur.Term != nil || cur.Loc == nil && cur.Clo == nil {
				s.cellVal[c] = x.freshValue(s, c.T, "loop."+c.Name)
			} else {
				panic(x.subsetf("loop modifies local %s holding a non-term value", c.Name))
			}
		}
		// allocs not yet executed on this path are (re)initialised inside the loop body
	}
	if m.all {
		return
	}
	w0 := s.watermark()
	for k, fs := range m.fields {
		t := m.heapT[k]
		if x.isStructPointee(t) {
			for i, f := range x.w.StructFields(t) {
				if fs[-1] || fs[i] {
					var bs []*baseSet
					if fs[-1] {
						bs = append(bs, m.base(k, -1))
					}
					if fs[i] {
						bs = append(bs, m.base(k, i))
					}
					key := x.fieldKey(t, i)
					cur := x.heapArr(s, key, x.w.SortOf(f.Type))
					s.heap[key] = x.havocArray(s, fr, key, cur, bs, m, blocks, w0)
				}
			}
			continue
		}
		key := x.cellKey(t)
		cur := x.heapArr(s, key, x.w.heapElemSort(t))
		s.heap[key] = x.havocArray(s, fr, key, cur, []*baseSet{m.base(k, -1)}, m, blocks, w0)
	}
}

// havocArray forgets a heap array at the objects a region may write: given pointers that are invariant in
// the region, and objects allocated by the region (reference above the watermark w0). If some write goes to
// an unknown object the whole array is forgotten.
func (x *Exec) havocArray(s *State, fr *Frame, key string, cur *Term, bs []*baseSet, m *modSet, blocks map[*ssa.BasicBlock]bool, w0 *Term) *Term {
	fresh := x.w.Reg.Fresh(key+"@loop", cur.Sort)
	var refs []*Term
	for _, b := range bs {
		if b.unknown {
			return fresh
		}
		for _, v := range b.vals {
			t, kind := x.classifyBase(s, fr, v, m, blocks)
			switch kind {
			case "known":
				refs = append(refs, t)
			case "fresh":
			default:
				return fresh
			}
		}
	}
	nv := x.w.Reg.Fresh(key+"@hv", cur.Sort)
	r := Var("r", SInt)
	var cond []*Term
	cond = append(cond, Gt(r, w0))
	for _, t := range refs {
		cond = append(cond, Eq(r, t))
	}
	s.assume(Forall([]*Term{r}, Eq(Select(nv, r), Ite(Or(cond...), Select(fresh, r), Select(cur, r))), []*Term{Select(nv, r)}))
	hvTab[nv.Name] = &hvInfo{old: cur, fresh: fresh, refs: refs, w0: w0}
	return nv
}

// classifyBase: is the pointer SSA value v invariant in the region (its value is then known now), an object
// allocated by the region, or something else?
func (x *Exec) classifyBase(s *State, fr *Frame, v ssa.Value, m *modSet, blocks map[*ssa.BasicBlock]bool) (*Term, string) {
	in, isInstr := v.(ssa.Instruction)
	inRegion := isInstr && blocks != nil && blocks[in.Block()] && in.Parent() == fr.fn
	if !inRegion {
		if isInstr && in.Parent() != fr.fn {
			return nil, "unknown"
		}
		if val, ok := fr.vals[v]; ok && val.Term != nil {
			return val.Term, "known"
		}
		if p, ok := v.(*ssa.Parameter); ok {
			for i, fp := range fr.fn.Params {
				if fp == p && fr.params[i].Term != nil {
					return fr.params[i].Term, "known"
				}
			}
		}
		return nil, "unknown"
	}
	switch i := v.(type) {
	case *ssa.UnOp:
		if al, ok := i.X.(*ssa.Alloc); ok && i.Op == token.MUL && !m.allocs[al] {
			if c, ok := fr.cells[al]; ok {
				if cv := s.cellVal[c]; cv.Term != nil {
					return cv.Term, "known"
				}
			}
		}
		// a local that the region assigns: fine if everything it is assigned (in the region) is a new object
		// and the local itself is declared in the region (so it holds nothing older)
		if al, ok := i.X.(*ssa.Alloc); ok && i.Op == token.MUL && m.allocs[al] && blocks[al.Block()] && al.Referrers() != nil {
			allFresh, n := true, 0
			for _, r := range *al.Referrers() {
				if st, ok := r.(*ssa.Store); ok && st.Addr == al {
					n++
					if _, k := x.classifyBase(s, fr, st.Val, m, blocks); k != "fresh" {
						allFresh = false
					}
				}
			}
			if allFresh && n > 0 {
				return nil, "fresh"
			}
		}
	case *ssa.Alloc:
		return nil, "fresh"
	case *ssa.MakeMap:
		return nil, "fresh"
	case *ssa.Call:
		if callee := i.Call.StaticCallee(); callee != nil {
			if sp := x.w.FuncSpecs[fnKey(callee)]; sp != nil && len(sp.Fresh) > 0 && sp.Fresh[0].When == nil {
				return nil, "fresh"
			}
		}
	}
	return nil, "unknown"
}

// enterLoopHeader is called when control reaches a loop header. Returns false if the path ends here.
func (x *Exec) enterLoopHeader(s *State, fr *Frame, lp *loop, from *ssa.BasicBlock) bool {
	backEdge := lp.body[from]
	lspec := x.loopSpecFor(s, fr, lp)
	// complete unrolling when the loop test is concrete on this path
	if n, unrolling := fr.unroll[lp.header]; unrolling || (!fr.cut[lp.header] && !backEdge && x.concreteTest(s, fr, lp)) {
		if n > 64 {
			panic(x.subsetf("unrolled loop exceeds 64 iterations in %s", fr.fn))
		}
		if !x.concreteTest(s, fr, lp) {
			panic(x.subsetf("loop test became symbolic while unrolling in %s", fr.fn))
		}
		fr.unroll[lp.header] = n + 1
		return true
	}
	if lspec != nil && lspec.Unroll {
		panic(x.subsetf("loop %d of %s is marked unroll but its test is not concrete", lp.ordinal, fr.fn))
	}
	fname := shortFn(fnKey(fr.fn))
	// An invariant that names a local which no longer exists (and cannot be re-bound) is dropped with a note:
	// invariants are auxiliary, the remaining ones must carry the proof. Decided once, at loop entry.
	if !backEdge && lspec != nil {
		skip := map[int]bool{}
		ctx := x.loopCtx(s, fr, lp)
		for ci, c := range lspec.Invariants {
			if msg, ok := x.bindable(ctx, c.Expr); !ok {
				skip[ci] = true
				x.rebound[fmt.Sprintf("invariant %q of loop %d in %s dropped, it does not bind (%s)", c.Label, lp.ordinal, fname, msg)] = true
			}
		}
		if fr.invSkip == nil {
			fr.invSkip = map[*ssa.BasicBlock]map[int]bool{}
		}
		fr.invSkip[lp.header] = skip
	}
	skipped := func(ci int) bool { return fr.invSkip != nil && fr.invSkip[lp.header][ci] }
	evalInv := func(kind string) {
		ctx := x.loopCtx(s, fr, lp)
		if lp.rangeIdx != nil && lp.rangeLen != nil {
			i := ctx.env["$i"].Term
			ln := x.val(s, fr, lp.rangeLen).Term
			x.oblige(s, kind, fmt.Sprintf("inv%d#range.%s@%s", lp.ordinal, kindSuffix(kind), fname), And(Le(IntT(0), i), Le(i, ln)), x.ownerTags, lp.header.Instrs[0].Pos(), "0 <= $i <= len")
		}
		if lspec != nil {
			for ci, c := range lspec.Invariants {
				if skipped(ci) {
					continue
				}
				label := c.Label
				if label == "" {
					label = fmt.Sprintf("i%d", ci)
				}
				g := x.evalBool(ctx, c.Expr)
				tags := c.Tags
				if len(tags) == 0 {
					tags = x.ownerTags
				}
				for k, cj := range conjuncts(g) {
					nm := fmt.Sprintf("inv%d#%s.%s@%s", lp.ordinal, label, kindSuffix(kind), fname)
					if k > 0 {
						nm = fmt.Sprintf("inv%d#%s.%d.%s@%s", lp.ordinal, label, k, kindSuffix(kind), fname)
					}
					x.oblige(s, kind, nm, cj, tags, x.loopPos(lp), label)
				}
			}
		}
	}
	if backEdge {
		if !fr.cut[lp.header] {
			panic(x.subsetf("back edge to an uncut loop header in %s", fr.fn))
		}
		evalInv("inv.step")
		return false
	}
	// entry from outside
	evalInv("inv.init")
	fr.cut[lp.header] = true
	m := x.modsOfBlocks(fr.fn, lp.body, map[*ssa.Function]bool{})
	x.havocMods(s, fr, m, lp.body)
	x.rebaseAlloc(s)
	// assume invariants
	ctx := x.loopCtx(s, fr, lp)
	if lp.rangeIdx != nil && lp.rangeLen != nil {
		i := ctx.env["$i"].Term
		ln := x.val(s, fr, lp.rangeLen).Term
		s.assume(And(Le(IntT(0), i), Le(i, ln)))
	}
	if lspec != nil {
		for ci, c := range lspec.Invariants {
			if skipped(ci) {
				continue
			}
			s.assume(x.evalBool(ctx, c.Expr))
		}
	}
	s.path = append(s.path, fmt.Sprintf("loop%d", lp.ordinal))
	return true
}

func kindSuffix(kind string) string {
	if kind == "inv.init" {
		return "init"
	}
	return "step"
}

func (x *Exec) loopPos(lp *loop) token.Pos {
	for b := range lp.body {
		_ = b
	}
	for _, in := range lp.header.Instrs {
		if in.Pos().IsValid() {
			return in.Pos()
		}
	}
	// first positioned instruction of the body
	var best token.Pos
	for b := range lp.body {
		for _, in := range b.Instrs {
			if in.Pos().IsValid() && (best == token.NoPos || in.Pos() < best) {
				best = in.Pos()
			}
		}
	}
	return best
}

func (x *Exec) loopCtx(s *State, fr *Frame, lp *loop) *EvalCtx {
	env := x.specEnv(nil)
	if fr.fn != x.top {
		env = map[string]Value{}
	}
	if lp.rangeIdx != nil {
		if c, ok := fr.cells[lp.rangeIdx]; ok {
			env["$i"] = Value{T: types.Typ[types.Int], Term: Add(s.cellVal[c].Term, IntT(1))}
		}
	}
	if lp.countIdx != nil {
		if c, ok := fr.cells[lp.countIdx]; ok {
			if v, ok := s.cellVal[c]; ok && v.Term != nil {
				env["$i"] = Value{T: types.Typ[types.Int], Term: v.Term}
			}
		}
	}
	// $i1, $i2: the index currently being visited by the enclosing range loops (innermost first)
	var outer []*loop
	for _, o := range x.loopsOf(fr.fn).loops {
		if o != lp && o.body[lp.header] && o.rangeIdx != nil {
			outer = append(outer, o)
		}
	}
	sort.SliceStable(outer, func(i, j int) bool { return len(outer[i].body) < len(outer[j].body) })
	nOuter := 0
	for _, o := range outer {
		if c, ok := fr.cells[o.rangeIdx]; ok {
			nOuter++
			env[fmt.Sprintf("$i%d", nOuter)] = Value{T: types.Typ[types.Int], Term: s.cellVal[c].Term}
		}
	}
	// inside an inlined helper: continue with the range loops of the callers that enclose the call
	idx := -1
	for i, f := range s.frames {
		if f == fr {
			idx = i
		}
	}
	for j := idx - 1; j >= 0; j-- {
		cf := s.frames[j]
		if cf.block == nil {
			continue
		}
		var enc []*loop
		for _, o := range x.loopsOf(cf.fn).loops {
			if o.body[cf.block] && o.rangeIdx != nil {
				enc = append(enc, o)
			}
		}
		sort.SliceStable(enc, func(a, b int) bool { return len(enc[a].body) < len(enc[b].body) })
		for _, o := range enc {
			if c, ok := cf.cells[o.rangeIdx]; ok {
				nOuter++
				env[fmt.Sprintf("$i%d", nOuter)] = Value{T: types.Typ[types.Int], Term: s.cellVal[c].Term}
			}
		}
	}
	return &EvalCtx{x: x, st: s, old: x.entry, env: env, sf: funcHome[x.spec], fr: fr, pos: x.loopPos(lp)}
}

// concreteTest reports whether the loop test at the header evaluates to a literal in state s
// (evaluated on a scratch copy; header instructions only touch locals).
func (x *Exec) concreteTest(s *State, fr *Frame, lp *loop) bool {
	iff, ok := lp.header.Instrs[len(lp.header.Instrs)-1].(*ssa.If)
	if !ok {
		return false
	}
	tmp := s.clone()
	tfr := tmp.top()
	saveObls := len(x.obls)
	saveSafety := x.safety
	x.safety = false
	defer func() { x.safety = saveSafety; x.obls = x.obls[:saveObls] }()
	okc := true
	func() {
		defer func() {
			if r := recover(); r != nil {
				okc = false
			}
		}()
		for _, in := range lp.header.Instrs[:len(lp.header.Instrs)-1] {
			switch in.(type) {
			case *ssa.UnOp, *ssa.BinOp, *ssa.Store, *ssa.DebugRef, *ssa.FieldAddr, *ssa.IndexAddr, *ssa.Field, *ssa.Index:
				x.step(tmp, tfr, in)
			case *ssa.Call:
				// len() builtin only
				c := in.(*ssa.Call)
				if b, isB := c.Call.Value.(*ssa.Builtin); isB && b.Name() == "len" {
					x.step(tmp, tfr, in)
				} else {
					okc = false
					return
				}
			default:
				okc = false
				return
			}
		}
	}()
	if !okc {
		return false
	}
	c, has := tfr.vals[iff.Cond]
	return has && c.Term != nil && c.Term.K == KBool
}

// bindable reports whether every identifier of a clause resolves in the context (evaluation errors other than
// unknown identifiers are contract errors and stay fatal).
func (x *Exec) bindable(ctx *EvalCtx, e SExpr) (msg string, ok bool) {
	defer func() {
		if r := recover(); r != nil {
			if se, isSpec := r.(specErr); isSpec && strings.Contains(se.msg, "unknown identifier") {
				msg, ok = se.msg[strings.Index(se.msg, "unknown identifier"):], false
				return
			}
			panic(r)
		}
	}()
	x.eval(ctx, e)
	return "", true
}

// loopSpecFor assigns a `loop n` block of the contract to a loop of the code. Normally that is the block with the
// loop's ordinal. When the code was restructured (a loop moved into a helper that is inlined, a loop added or
// removed before it) the block whose invariants bind best at this loop is taken instead, and a block is claimed by one
// loop only. The choice is made once per loop. It cannot make a proof unsound: invariants are proved before they
// are assumed.
func (x *Exec) loopSpecFor(s *State, fr *Frame, lp *loop) *LoopSpec {
	if sp, ok := x.loopClaim[lp.header]; ok {
		return sp
	}
	var specs map[int]*LoopSpec
	own := false
	switch {
	case fr.fn == x.top:
		specs, own = x.spec.Loops, true
	case x.w.FuncSpecs[fnKey(fr.fn)] != nil:
		specs, own = x.w.FuncSpecs[fnKey(fr.fn)].Loops, true
	default:
		specs = x.spec.Loops // a contract-less helper inlined into the function under contract
	}
	claimedBy := func(sp *LoopSpec) bool {
		for h, c := range x.loopClaim {
			if c == sp && h != lp.header {
				return true
			}
		}
		return false
	}
	score := func(sp *LoopSpec) (bound, total int) {
		ctx := x.loopCtx(s, fr, lp)
		for _, c := range sp.Invariants {
			total++
			if _, ok := x.bindable(ctx, c.Expr); ok {
				bound++
			}
		}
		return
	}
	var best *LoopSpec
	if own {
		if sp := specs[lp.ordinal]; sp != nil && !claimedBy(sp) {
			if b, t := score(sp); b == t {
				best = sp
			}
		}
	}
	if best == nil {
		bestNum, bestDen := 0, 1
		var ords []int
		for o := range specs {
			ords = append(ords, o)
		}
		sort.Ints(ords)
		for _, o := range ords {
			sp := specs[o]
			if claimedBy(sp) || len(sp.Invariants) == 0 {
				continue
			}
			b, t := score(sp)
			if b > 0 && b*bestDen > bestNum*t {
				best, bestNum, bestDen = sp, b, t
			}
		}
		if best == nil && own {
			if sp := specs[lp.ordinal]; sp != nil && !claimedBy(sp) {
				best = sp // e.g. an `unroll` block without invariants
			}
		}
		if best != nil && !(own && specs[lp.ordinal] == best) {
			x.rebound[fmt.Sprintf("contract block 'loop %d' applied to loop %d of %s (the code was restructured)", best.Ordinal, lp.ordinal, shortFn(fnKey(fr.fn)))] = true
		}
	}
	x.loopClaim[lp.header] = best
	return best
}
