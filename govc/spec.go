package main

// Contract language: lexer, Pratt parser and AST. Contracts live in `//@` comment lines
// (Gobra style) of comment-only Go files behind the build tag `verif` in /repo, and in
// /verif/contracts/external/*.spec for dependencies.

import (
	"fmt"
	"os"
	"strconv"
	"strings"
)

// ---------------- AST ----------------

type SExpr interface{ pos() SPos }

type SPos struct {
	File string
	Line int
}

func (p SPos) pos() SPos      { return p }
func (p SPos) String() string { return fmt.Sprintf("%s:%d", p.File, p.Line) }

type (
	SIdent struct {
		SPos
		Name string
	}
	SLit struct {
		SPos
		Kind string // int, string, bool, nil
		Val  string
	}
	SBinary struct {
		SPos
		Op   string
		X, Y SExpr
	}
	SUnary struct {
		SPos
		Op string
		X  SExpr
	}
	SCall struct {
		SPos
		Fun  SExpr
		Args []SExpr
	}
	SSelect struct {
		SPos
		X   SExpr
		Sel string
	}
	SIndex struct {
		SPos
		X, I SExpr
	}
	SSlice struct {
		SPos
		X, Lo, Hi SExpr
	}
	SQuant struct {
		SPos
		Kind string // forall, exists
		Vars []SParam
		Body SExpr
	}
	SCond struct {
		SPos
		C, A, B SExpr
	}
	SComposite struct {
		SPos
		Type   *SType
		Fields []SField
	}
	SIs struct {
		SPos
		X    SExpr
		Type *SType
	}
	SLet struct {
		SPos
		Name string
		Val  SExpr
		Body SExpr
	}
	// x.(T): the value of dynamic type T held by interface value x (unspecified if x holds another type)
	SAssert struct {
		SPos
		X    SExpr
		Type *SType
	}
)

type SField struct {
	Name string
	Val  SExpr
}

type SParam struct {
	Name string
	Type *SType
}

// SType is a syntactic type: Kind in {name, ptr, slice, array, map, func}
type SType struct {
	Kind string
	Pkg  string // for name
	Name string
	Elem *SType
	Key  *SType
	Len  int
}

func (t *SType) String() string {
	if t == nil {
		return "<nil>"
	}
	switch t.Kind {
	case "name":
		if t.Pkg != "" {
			return t.Pkg + "." + t.Name
		}
		return t.Name
	case "ptr":
		return "*" + t.Elem.String()
	case "slice":
		return "[]" + t.Elem.String()
	case "array":
		return fmt.Sprintf("[%d]%s", t.Len, t.Elem)
	case "map":
		return "map[" + t.Key.String() + "]" + t.Elem.String()
	}
	return t.Kind
}

type Clause struct {
	Pos   SPos
	Tags  []string
	Label string
	Expr  SExpr
	Text  string
}

type LoopSpec struct {
	Ordinal    int
	Invariants []*Clause
	Visits     []*Clause // iterator call sites: facts established by every successful visit (old = state at visit start, $m = element)
	Unroll     bool
	NoHalt     *Clause // iter: the handler must not return the halt sentinel
}

// MutateSpec: `mutates p := e` — the callee overwrites the contents of slice argument p with e.
type MutateSpec struct {
	Param string
	Expr  SExpr
}

type FreshSpec struct {
	Name string
	When SExpr // nil = unconditionally fresh
	Tags []string
}

type AssignLoc struct {
	Expr  SExpr // location expression (x.f, *p) ; nil for "everything"
	All   bool
	Owner *SType // "all pkg.T.f": field f of every object of type T
	Field string
}

type FuncSpec struct {
	Pos        SPos
	Pkg        string // package qualifier as written ("" = the contract file's own package)
	Recv       *SParam
	RecvPtr    bool
	Name       string
	Params     []SParam
	Results    []SParam
	Requires   []*Clause
	Ensures    []*Clause
	Panics     []*Clause // "panics unless e": obligation at every call site, attributed to safety
	Exits      []*Clause // checked at every return site of the body (may mention locals); never assumed by callers
	Assigns    []AssignLoc
	HasAssigns bool
	Safety     []string // property tags that own the zero-annotation safety obligations of this body
	Inline     bool
	Mutates    []MutateSpec // in-place mutation of a slice argument: every copy of that slice value now reads the new contents
	NoMerge    bool         // do not merge if-diamonds in this function (keeps literal-length slices literal so loops unroll)
	Trusted    bool
	Loops      map[int]*LoopSpec
	Iters      map[int]*LoopSpec
	Frame      []string // tags owning frame obligations
	Pure       bool     // for externals: result is a function of the arguments (no heap dependence)
	External   bool
	Fresh      []FreshSpec // results that are freshly allocated (optionally only when a condition holds)
	Iterator   bool        // iteration schema (etreeutils.NSFindIterate)
	Notes      []string
}

func (f *FuncSpec) Key() string {
	k := ""
	if f.Pkg != "" {
		k = f.Pkg + "."
	}
	if f.Recv != nil {
		k += "(" + f.Recv.Type.String() + ")."
	}
	return k + f.Name
}

type PureFunc struct {
	Pos    SPos
	Name   string
	Params []SParam
	Result *SType
	Body   SExpr
}

type GhostFunc struct {
	Pos    SPos
	Name   string
	Params []SParam
	Result *SType
}

type GhostField struct {
	Pos   SPos
	Owner *SType
	Name  string
	Type  *SType
}

// GuardSpec: field Field of struct Owner may only be read with the lock held and written with it write-held.
type GuardSpec struct {
	Pos   SPos
	Owner *SType
	Field string
	Mutex string
	Tags  []string
	// Pointee != nil: "guarded pointee T by Owner.Mutex": objects of type T are written only with the
	// receiver's mutex write-held (objects allocated during the call excepted until they are stored)
	Pointee *SType
}

type AxiomSpec struct {
	Pos  SPos
	Name string
	Expr SExpr
	Text string
}

type SpecFile struct {
	Path        string
	PkgName     string // package clause of the file ("" for external .spec files)
	Imports     map[string]string
	Funcs       []*FuncSpec
	Pures       []*PureFunc
	GhostFuncs  []*GhostFunc
	GhostFields []*GhostField
	Axioms      []*AxiomSpec
	Guards      []*GuardSpec
	Tokens      map[string]int // counts of assume/axiom/trusted tokens (mechanical scan)
}

// ---------------- lexer ----------------

type tok struct {
	kind string // id, int, str, op, eof
	val  string
	line int
}

type lexer struct {
	file string
	toks []tok
	p    int
}

func isIdStart(c byte) bool {
	return c == '_' || c == '$' || c >= 'a' && c <= 'z' || c >= 'A' && c <= 'Z'
}
func isIdChar(c byte) bool { return isIdStart(c) || c >= '0' && c <= '9' }

var ops3 = []string{"<==>", "==>", "...", "::", "==", "!=", "<=", ">=", "&&", "||", "<<", ">>"}

func lexLines(file string, lines []string, lineNos []int) (*lexer, error) {
	lx := &lexer{file: file}
	for li, s := range lines {
		ln := lineNos[li]
		i := 0
		for i < len(s) {
			c := s[i]
			if c == ' ' || c == '\t' || c == '\r' {
				i++
				continue
			}
			if c == '/' && i+1 < len(s) && s[i+1] == '/' {
				break // trailing comment
			}
			if isIdStart(c) {
				j := i + 1
				for j < len(s) && isIdChar(s[j]) {
					j++
				}
				lx.toks = append(lx.toks, tok{"id", s[i:j], ln})
				i = j
				continue
			}
			if c >= '0' && c <= '9' {
				j := i + 1
				for j < len(s) && (isIdChar(s[j])) {
					j++
				}
				lx.toks = append(lx.toks, tok{"int", s[i:j], ln})
				i = j
				continue
			}
			if c == '"' {
				j := i + 1
				for j < len(s) && s[j] != '"' {
					if s[j] == '\\' {
						j++
					}
					j++
				}
				if j >= len(s) {
					return nil, fmt.Errorf("%s:%d: unterminated string", file, ln)
				}
				v, err := strconv.Unquote(s[i : j+1])
				if err != nil {
					return nil, fmt.Errorf("%s:%d: bad string %s", file, ln, s[i:j+1])
				}
				lx.toks = append(lx.toks, tok{"str", v, ln})
				i = j + 1
				continue
			}
			matched := false
			for _, op := range ops3 {
				if strings.HasPrefix(s[i:], op) {
					lx.toks = append(lx.toks, tok{"op", op, ln})
					i += len(op)
					matched = true
					break
				}
			}
			if matched {
				continue
			}
			lx.toks = append(lx.toks, tok{"op", string(c), ln})
			i++
		}
		lx.toks = append(lx.toks, tok{"nl", "", ln})
	}
	lx.toks = append(lx.toks, tok{"eof", "", 0})
	return lx, nil
}

func (l *lexer) peek() tok { return l.toks[l.p] }
func (l *lexer) peekN(n int) tok {
	if l.p+n < len(l.toks) {
		return l.toks[l.p+n]
	}
	return tok{"eof", "", 0}
}
func (l *lexer) next() tok {
	t := l.toks[l.p]
	if l.p < len(l.toks)-1 {
		l.p++
	}
	return t
}
func (l *lexer) skipNL() {
	for l.peek().kind == "nl" {
		l.next()
	}
}
func (l *lexer) isOp(v string) bool { t := l.peek(); return t.kind == "op" && t.val == v }
func (l *lexer) isID(v string) bool { t := l.peek(); return t.kind == "id" && t.val == v }
func (l *lexer) accept(v string) bool {
	if l.isOp(v) {
		l.next()
		return true
	}
	return false
}
func (l *lexer) expect(v string) error {
	if !l.accept(v) {
		t := l.peek()
		return fmt.Errorf("%s:%d: expected %q, found %q", l.file, t.line, v, t.val)
	}
	return nil
}
func (l *lexer) here() SPos { return SPos{l.file, l.peek().line} }

// ---------------- expression parser ----------------

// Inside an expression newlines are ignored while brackets are open or when the line ends
// with a binary operator / the next line starts with one. We implement this by letting the
// clause parser collect the tokens of one clause (up to the next clause keyword at line start).

var clauseKeywords = map[string]bool{"requires": true, "ensures": true, "assigns": true, "safety": true, "inline": true,
	"trusted": true, "loop": true, "iter": true, "invariant": true, "panics": true, "frame": true, "pure": true,
	"ghost": true, "func": true, "axiom": true, "unroll": true, "fresh": true, "note": true, "external": true, "visit": true, "iterator": true, "exit": true, "guarded": true, "nomerge": true, "mutates": true, "nohalt": true}

type eparser struct {
	l *lexer
}

func (p *eparser) errf(format string, a ...interface{}) error {
	t := p.l.peek()
	return fmt.Errorf("%s:%d: %s (at %q)", p.l.file, t.line, fmt.Sprintf(format, a...), t.val)
}

// binary precedences (higher binds tighter)
var prec = map[string]int{"<==>": 1, "==>": 2, "||": 3, "&&": 4, "==": 5, "!=": 5, "<": 5, "<=": 5, ">": 5, ">=": 5,
	"+": 6, "-": 6, "|": 6, "*": 7, "/": 7, "%": 7, "&": 7, "<<": 7, ">>": 7}

func (p *eparser) skip() {
	for p.l.peek().kind == "nl" {
		p.l.next()
	}
}

func (p *eparser) parseExpr(minPrec int) (SExpr, error) {
	p.skip()
	// ternary / quantifier have lowest precedence and are handled in parseUnary/primary
	x, err := p.parseUnary()
	if err != nil {
		return nil, err
	}
	for {
		p.skipIfContinuation()
		t := p.l.peek()
		if t.kind == "id" && t.val == "is" {
			p.l.next()
			ty, err := p.parseType()
			if err != nil {
				return nil, err
			}
			x = &SIs{SPos{p.l.file, t.line}, x, ty}
			continue
		}
		if t.kind != "op" {
			break
		}
		if t.val == "?" && minPrec <= 0 {
			p.l.next()
			a, err := p.parseExpr(0)
			if err != nil {
				return nil, err
			}
			p.skip()
			if err := p.l.expect(":"); err != nil {
				return nil, err
			}
			b, err := p.parseExpr(0)
			if err != nil {
				return nil, err
			}
			x = &SCond{SPos{p.l.file, t.line}, x, a, b}
			continue
		}
		pr, ok := prec[t.val]
		if !ok || pr < minPrec {
			break
		}
		p.l.next()
		next := pr + 1
		if t.val == "==>" {
			next = pr // right associative
		}
		y, err := p.parseExpr(next)
		if err != nil {
			return nil, err
		}
		x = &SBinary{SPos{p.l.file, t.line}, t.val, x, y}
	}
	return x, nil
}

// skipIfContinuation skips newlines when the next significant token is a binary operator
// (so clauses may break lines before an operator).
func (p *eparser) skipIfContinuation() {
	i := 0
	for p.l.peekN(i).kind == "nl" {
		i++
	}
	if i == 0 {
		return
	}
	t := p.l.peekN(i)
	if t.kind == "op" {
		if _, ok := prec[t.val]; ok || t.val == "?" || t.val == ":" {
			for j := 0; j < i; j++ {
				p.l.next()
			}
		}
	}
}

func (p *eparser) parseUnary() (SExpr, error) {
	p.skip()
	t := p.l.peek()
	if t.kind == "op" && (t.val == "!" || t.val == "-" || t.val == "*" || t.val == "&") {
		p.l.next()
		x, err := p.parseUnary()
		if err != nil {
			return nil, err
		}
		return &SUnary{SPos{p.l.file, t.line}, t.val, x}, nil
	}
	return p.parsePostfix()
}

func (p *eparser) parsePostfix() (SExpr, error) {
	x, err := p.parsePrimary()
	if err != nil {
		return nil, err
	}
	for {
		t := p.l.peek()
		if t.kind != "op" {
			return x, nil
		}
		switch t.val {
		case ".":
			p.l.next()
			if p.l.isOp("(") {
				p.l.next()
				ty, err := p.parseType()
				if err != nil {
					return nil, err
				}
				if err := p.l.expect(")"); err != nil {
					return nil, err
				}
				x = &SAssert{SPos{p.l.file, t.line}, x, ty}
				continue
			}
			n := p.l.next()
			if n.kind != "id" {
				return nil, p.errf("expected field name")
			}
			x = &SSelect{SPos{p.l.file, t.line}, x, n.val}
		case "(":
			p.l.next()
			var args []SExpr
			p.skip()
			for !p.l.isOp(")") {
				a, err := p.parseExpr(0)
				if err != nil {
					return nil, err
				}
				args = append(args, a)
				p.skip()
				if !p.l.accept(",") {
					break
				}
				p.skip()
			}
			p.skip()
			if err := p.l.expect(")"); err != nil {
				return nil, err
			}
			x = &SCall{SPos{p.l.file, t.line}, x, args}
		case "[":
			p.l.next()
			var lo, hi SExpr
			p.skip()
			if !p.l.isOp(":") {
				lo, err = p.parseExpr(0)
				if err != nil {
					return nil, err
				}
			}
			p.skip()
			if p.l.accept(":") {
				p.skip()
				if !p.l.isOp("]") {
					hi, err = p.parseExpr(0)
					if err != nil {
						return nil, err
					}
				}
				p.skip()
				if err := p.l.expect("]"); err != nil {
					return nil, err
				}
				x = &SSlice{SPos{p.l.file, t.line}, x, lo, hi}
			} else {
				if err := p.l.expect("]"); err != nil {
					return nil, err
				}
				x = &SIndex{SPos{p.l.file, t.line}, x, lo}
			}
		case "{":
			// composite literal: only after a (possibly qualified) type name
			ty := exprAsType(x)
			if ty == nil {
				return x, nil
			}
			p.l.next()
			var fs []SField
			p.skip()
			for !p.l.isOp("}") {
				n := p.l.next()
				if n.kind != "id" {
					return nil, p.errf("expected field name in composite literal")
				}
				if err := p.l.expect(":"); err != nil {
					return nil, err
				}
				v, err := p.parseExpr(0)
				if err != nil {
					return nil, err
				}
				fs = append(fs, SField{n.val, v})
				p.skip()
				if !p.l.accept(",") {
					break
				}
				p.skip()
			}
			p.skip()
			if err := p.l.expect("}"); err != nil {
				return nil, err
			}
			x = &SComposite{SPos{p.l.file, t.line}, ty, fs}
		default:
			return x, nil
		}
	}
}

func exprAsType(x SExpr) *SType {
	switch e := x.(type) {
	case *SIdent:
		if e.Name != "" && (e.Name[0] >= 'A' && e.Name[0] <= 'Z') {
			return &SType{Kind: "name", Name: e.Name}
		}
	case *SSelect:
		if id, ok := e.X.(*SIdent); ok && e.Sel[0] >= 'A' && e.Sel[0] <= 'Z' {
			return &SType{Kind: "name", Pkg: id.Name, Name: e.Sel}
		}
	}
	return nil
}

func (p *eparser) parsePrimary() (SExpr, error) {
	p.skip()
	t := p.l.next()
	pos := SPos{p.l.file, t.line}
	switch t.kind {
	case "int":
		return &SLit{pos, "int", t.val}, nil
	case "str":
		return &SLit{pos, "string", t.val}, nil
	case "id":
		switch t.val {
		case "true", "false":
			return &SLit{pos, "bool", t.val}, nil
		case "nil":
			return &SLit{pos, "nil", ""}, nil
		case "forall", "exists":
			var vars []SParam
			for {
				n := p.l.next()
				if n.kind != "id" {
					return nil, p.errf("expected bound variable")
				}
				ty, err := p.parseType()
				if err != nil {
					return nil, err
				}
				vars = append(vars, SParam{n.val, ty})
				if !p.l.accept(",") {
					break
				}
			}
			if err := p.l.expect("::"); err != nil {
				return nil, err
			}
			body, err := p.parseExpr(0)
			if err != nil {
				return nil, err
			}
			return &SQuant{pos, t.val, vars, body}, nil
		case "let":
			n := p.l.next()
			if err := p.l.expect("="); err != nil {
				return nil, err
			}
			v, err := p.parseExpr(1)
			if err != nil {
				return nil, err
			}
			p.skip()
			if !p.l.isID("in") {
				return nil, p.errf("expected 'in'")
			}
			p.l.next()
			body, err := p.parseExpr(0)
			if err != nil {
				return nil, err
			}
			return &SLet{pos, n.val, v, body}, nil
		}
		return &SIdent{pos, t.val}, nil
	case "op":
		if t.val == "(" {
			x, err := p.parseExpr(0)
			if err != nil {
				return nil, err
			}
			p.skip()
			if err := p.l.expect(")"); err != nil {
				return nil, err
			}
			return x, nil
		}
	}
	return nil, fmt.Errorf("%s:%d: unexpected token %q", p.l.file, t.line, t.val)
}

func (p *eparser) parseType() (*SType, error) {
	t := p.l.peek()
	if t.kind == "op" {
		switch t.val {
		case "*":
			p.l.next()
			e, err := p.parseType()
			if err != nil {
				return nil, err
			}
			return &SType{Kind: "ptr", Elem: e}, nil
		case "[":
			p.l.next()
			if p.l.accept("]") {
				e, err := p.parseType()
				if err != nil {
					return nil, err
				}
				return &SType{Kind: "slice", Elem: e}, nil
			}
			n := p.l.next()
			if n.kind != "int" {
				return nil, p.errf("expected array length")
			}
			ln, _ := strconv.Atoi(n.val)
			if err := p.l.expect("]"); err != nil {
				return nil, err
			}
			e, err := p.parseType()
			if err != nil {
				return nil, err
			}
			return &SType{Kind: "array", Elem: e, Len: ln}, nil
		}
	}
	if t.kind == "id" {
		p.l.next()
		if t.val == "map" {
			if err := p.l.expect("["); err != nil {
				return nil, err
			}
			k, err := p.parseType()
			if err != nil {
				return nil, err
			}
			if err := p.l.expect("]"); err != nil {
				return nil, err
			}
			v, err := p.parseType()
			if err != nil {
				return nil, err
			}
			return &SType{Kind: "map", Key: k, Elem: v}, nil
		}
		if t.val == "func" {
			// func(...) ... : only as an opaque parameter type; skip balanced parens
			if p.l.accept("(") {
				depth := 1
				for depth > 0 {
					n := p.l.next()
					if n.kind == "eof" {
						return nil, p.errf("unterminated func type")
					}
					if n.kind == "op" && n.val == "(" {
						depth++
					}
					if n.kind == "op" && n.val == ")" {
						depth--
					}
				}
			}
			// optional single result type
			nt := p.l.peek()
			if nt.kind == "id" && !clauseKeywords[nt.val] {
				if _, err := p.parseType(); err != nil {
					return nil, err
				}
			}
			return &SType{Kind: "func"}, nil
		}
		if p.l.isOp(".") && p.l.peekN(1).kind == "id" {
			p.l.next()
			n := p.l.next()
			return &SType{Kind: "name", Pkg: t.val, Name: n.val}, nil
		}
		return &SType{Kind: "name", Name: t.val}, nil
	}
	return nil, p.errf("expected type")
}

// ---------------- file parser ----------------

func (p *eparser) parseParams() ([]SParam, error) {
	var out []SParam
	if err := p.l.expect("("); err != nil {
		return nil, err
	}
	for !p.l.isOp(")") {
		// name [, name]* type   |  type (unnamed)
		// "name type" (grouped names "a, b T" are not supported) or an unnamed type
		var names []string
		if n, n1 := p.l.peek(), p.l.peekN(1); n.kind == "id" && n.val != "map" && n.val != "func" &&
			(n1.kind == "id" || n1.kind == "op" && (n1.val == "*" || n1.val == "[" || n1.val == "...")) {
			p.l.next()
			names = append(names, n.val)
		}
		variadic := p.l.accept("...")
		ty, err := p.parseType()
		if err != nil {
			return nil, err
		}
		if variadic {
			ty = &SType{Kind: "slice", Elem: ty}
		}
		if len(names) == 0 {
			names = []string{"_"}
		}
		for _, n := range names {
			out = append(out, SParam{n, ty})
		}
		if !p.l.accept(",") {
			break
		}
	}
	if err := p.l.expect(")"); err != nil {
		return nil, err
	}
	return out, nil
}

func (p *eparser) parseTags() []string {
	var tags []string
	for p.l.isOp("[") && p.l.peekN(1).kind == "id" && strings.HasPrefix(p.l.peekN(1).val, "C") {
		p.l.next()
		for {
			t := p.l.next()
			tags = append(tags, t.val)
			if !p.l.accept(",") {
				break
			}
		}
		p.l.expect("]")
	}
	return tags
}

func (p *eparser) parseClause(src []string) (*Clause, error) {
	pos := p.l.here()
	tags := p.parseTags()
	label := ""
	// label: identifier(.identifier)* followed by ':' (not '::')
	if p.l.peek().kind == "id" {
		i := 0
		for p.l.peekN(i).kind == "id" && p.l.peekN(i+1).kind == "op" && p.l.peekN(i+1).val == "." && p.l.peekN(i+2).kind == "id" {
			i += 2
		}
		if p.l.peekN(i).kind == "id" && p.l.peekN(i+1).kind == "op" && p.l.peekN(i+1).val == ":" {
			var parts []string
			for j := 0; j <= i; j += 2 {
				parts = append(parts, p.l.peekN(j).val)
			}
			label = strings.Join(parts, ".")
			for j := 0; j <= i+1; j++ {
				p.l.next()
			}
		}
	}
	startLine := p.l.peek().line
	e, err := p.parseExpr(0)
	if err != nil {
		return nil, err
	}
	endLine := p.l.peek().line
	_ = endLine
	return &Clause{Pos: pos, Tags: tags, Label: label, Expr: e, Text: fmt.Sprintf("line %d", startLine)}, nil
}

func parseSpecLines(path string, lines []string, lineNos []int) (*SpecFile, error) {
	lx, err := lexLines(path, lines, lineNos)
	if err != nil {
		return nil, err
	}
	p := &eparser{lx}
	sf := &SpecFile{Path: path, Tokens: map[string]int{}}
	var cur *FuncSpec
	var curLoop *LoopSpec
	for {
		lx.skipNL()
		t := lx.peek()
		if t.kind == "eof" {
			break
		}
		if t.kind != "id" {
			return nil, p.errf("expected a contract keyword")
		}
		switch t.val {
		case "pure":
			lx.next()
			if lx.isID("func") {
				lx.next()
				pf := &PureFunc{Pos: SPos{path, t.line}}
				pf.Name = lx.next().val
				if pf.Params, err = p.parseParams(); err != nil {
					return nil, err
				}
				if pf.Result, err = p.parseType(); err != nil {
					return nil, err
				}
				if lx.accept("{") {
					lx.skipNL()
					if !lx.isID("return") {
						return nil, p.errf("pure func body must be 'return e'")
					}
					lx.next()
					if pf.Body, err = p.parseExpr(0); err != nil {
						return nil, err
					}
					lx.skipNL()
					if err := lx.expect("}"); err != nil {
						return nil, err
					}
				} else if lx.accept("=") {
					if pf.Body, err = p.parseExpr(0); err != nil {
						return nil, err
					}
				} else {
					return nil, p.errf("pure func needs a body")
				}
				sf.Pures = append(sf.Pures, pf)
				cur, curLoop = nil, nil
			} else {
				if cur == nil {
					return nil, p.errf("'pure' outside a func contract")
				}
				cur.Pure = true
			}
		case "ghost":
			lx.next()
			k := lx.next()
			switch k.val {
			case "func":
				gf := &GhostFunc{Pos: SPos{path, t.line}}
				gf.Name = lx.next().val
				if gf.Params, err = p.parseParams(); err != nil {
					return nil, err
				}
				if gf.Result, err = p.parseType(); err != nil {
					return nil, err
				}
				sf.GhostFuncs = append(sf.GhostFuncs, gf)
			case "field":
				// ghost field pkg.Type.$name T   |  ghost field Type.$name T
				g := &GhostField{Pos: SPos{path, t.line}}
				a := lx.next().val
				lx.expect(".")
				b := lx.next().val
				if lx.accept(".") {
					c := lx.next().val
					g.Owner = &SType{Kind: "name", Pkg: a, Name: b}
					g.Name = c
				} else {
					g.Owner = &SType{Kind: "name", Name: a}
					g.Name = b
				}
				if g.Type, err = p.parseType(); err != nil {
					return nil, err
				}
				sf.GhostFields = append(sf.GhostFields, g)
			default:
				return nil, p.errf("ghost func|field expected")
			}
			cur, curLoop = nil, nil
		case "guarded":
			// guarded [tags] pkg.Type.field by mutexField
			lx.next()
			g := &GuardSpec{Pos: SPos{path, t.line}}
			g.Tags = p.parseTags()
			if lx.isID("pointee") {
				lx.next()
				if g.Pointee, err = p.parseType(); err != nil {
					return nil, err
				}
				if !lx.isID("by") {
					return nil, p.errf("expected 'by'")
				}
				lx.next()
				a := lx.next().val
				lx.expect(".")
				g.Owner = &SType{Kind: "name", Name: a}
				g.Mutex = lx.next().val
				sf.Guards = append(sf.Guards, g)
				cur, curLoop = nil, nil
				continue
			}
			a := lx.next().val
			lx.expect(".")
			b := lx.next().val
			if lx.accept(".") {
				g.Owner = &SType{Kind: "name", Pkg: a, Name: b}
				g.Field = lx.next().val
			} else {
				g.Owner = &SType{Kind: "name", Name: a}
				g.Field = b
			}
			if !lx.isID("by") {
				return nil, p.errf("expected 'by'")
			}
			lx.next()
			g.Mutex = lx.next().val
			sf.Guards = append(sf.Guards, g)
			cur, curLoop = nil, nil
		case "axiom":
			lx.next()
			sf.Tokens["axiom"]++
			ax := &AxiomSpec{Pos: SPos{path, t.line}}
			ax.Name = lx.next().val
			for lx.accept(".") {
				ax.Name += "." + lx.next().val
			}
			if err := lx.expect(":"); err != nil {
				return nil, err
			}
			if ax.Expr, err = p.parseExpr(0); err != nil {
				return nil, err
			}
			sf.Axioms = append(sf.Axioms, ax)
			cur, curLoop = nil, nil
		case "func":
			lx.next()
			fs := &FuncSpec{Pos: SPos{path, t.line}, Loops: map[int]*LoopSpec{}, Iters: map[int]*LoopSpec{}}
			if lx.isOp("(") {
				// receiver
				lx.next()
				n := lx.next()
				ty, err := p.parseType()
				if err != nil {
					return nil, err
				}
				if err := lx.expect(")"); err != nil {
					return nil, err
				}
				fs.Recv = &SParam{n.val, ty}
				fs.RecvPtr = ty.Kind == "ptr"
			}
			n := lx.next()
			fs.Name = n.val
			if lx.isOp(".") {
				lx.next()
				fs.Pkg = fs.Name
				fs.Name = lx.next().val
			}
			if fs.Params, err = p.parseParams(); err != nil {
				return nil, err
			}
			if lx.isOp("(") {
				if fs.Results, err = p.parseParams(); err != nil {
					return nil, err
				}
			} else if lx.peek().kind != "nl" {
				ty, err := p.parseType()
				if err != nil {
					return nil, err
				}
				fs.Results = []SParam{{"result", ty}}
			}
			sf.Funcs = append(sf.Funcs, fs)
			cur, curLoop = fs, nil
		case "requires", "ensures", "invariant", "panics", "visit", "exit":
			lx.next()
			if cur == nil {
				return nil, p.errf("clause outside a func contract")
			}
			if t.val == "panics" {
				if !lx.isID("unless") {
					return nil, p.errf("expected 'panics unless'")
				}
				lx.next()
			}
			c, err := p.parseClause(lines)
			if err != nil {
				return nil, err
			}
			switch t.val {
			case "requires":
				cur.Requires = append(cur.Requires, c)
			case "ensures":
				cur.Ensures = append(cur.Ensures, c)
			case "panics":
				cur.Panics = append(cur.Panics, c)
			case "exit":
				cur.Exits = append(cur.Exits, c)
			case "invariant":
				if curLoop == nil {
					return nil, p.errf("invariant outside loop/iter")
				}
				curLoop.Invariants = append(curLoop.Invariants, c)
			case "visit":
				if curLoop == nil {
					return nil, p.errf("visit outside iter")
				}
				curLoop.Visits = append(curLoop.Visits, c)
			}
		case "assigns":
			lx.next()
			if cur == nil {
				return nil, p.errf("assigns outside a func contract")
			}
			cur.HasAssigns = true
			if lx.isID("nothing") {
				lx.next()
			} else if lx.isOp("*") && lx.peekN(1).kind == "nl" {
				lx.next()
				cur.Assigns = append(cur.Assigns, AssignLoc{All: true})
			} else {
				for {
					if lx.isID("all") {
						lx.next()
						a := lx.next().val
						lx.expect(".")
						b := lx.next().val
						al := AssignLoc{}
						if lx.accept(".") {
							al.Owner = &SType{Kind: "name", Pkg: a, Name: b}
							al.Field = lx.next().val
						} else {
							al.Owner = &SType{Kind: "name", Name: a}
							al.Field = b
						}
						cur.Assigns = append(cur.Assigns, al)
					} else {
						e, err := p.parseExpr(0)
						if err != nil {
							return nil, err
						}
						cur.Assigns = append(cur.Assigns, AssignLoc{Expr: e})
					}
					if !lx.accept(",") {
						break
					}
				}
			}
		case "safety", "frame":
			lx.next()
			if cur == nil {
				return nil, p.errf("%s outside a func contract", t.val)
			}
			tags := p.parseTags()
			if t.val == "safety" {
				cur.Safety = append(cur.Safety, tags...)
			} else {
				cur.Frame = append(cur.Frame, tags...)
			}
		case "inline":
			lx.next()
			cur.Inline = true
		case "nomerge":
			lx.next()
			cur.NoMerge = true
		case "mutates":
			lx.next()
			ms := MutateSpec{Param: lx.next().val}
			if err := lx.expect(":"); err != nil {
				return nil, err
			}
			if err := lx.expect("="); err != nil {
				return nil, err
			}
			if ms.Expr, err = p.parseExpr(0); err != nil {
				return nil, err
			}
			cur.Mutates = append(cur.Mutates, ms)
		case "trusted":
			lx.next()
			sf.Tokens["trusted"]++
			cur.Trusted = true
		case "fresh":
			lx.next()
			ftags := p.parseTags()
			fsp := FreshSpec{Name: lx.next().val, Tags: ftags}
			if lx.isID("when") {
				lx.next()
				if fsp.When, err = p.parseExpr(0); err != nil {
					return nil, err
				}
			}
			cur.Fresh = append(cur.Fresh, fsp)
		case "iterator":
			lx.next()
			cur.Iterator = true
		case "note":
			lx.next()
			var ws []string
			for lx.peek().kind != "nl" && lx.peek().kind != "eof" {
				ws = append(ws, lx.next().val)
			}
			if cur != nil {
				cur.Notes = append(cur.Notes, strings.Join(ws, " "))
			}
		case "loop", "iter":
			lx.next()
			n := lx.next()
			ord, err := strconv.Atoi(n.val)
			if err != nil {
				return nil, p.errf("loop ordinal expected")
			}
			curLoop = &LoopSpec{Ordinal: ord}
			if t.val == "loop" {
				cur.Loops[ord] = curLoop
			} else {
				cur.Iters[ord] = curLoop
			}
		case "unroll":
			lx.next()
			if curLoop == nil {
				return nil, p.errf("unroll outside loop")
			}
			curLoop.Unroll = true
		case "nohalt":
			// iter block: the handler never stops the traversal early (never returns the halt sentinel), so a nil result
			// of the iteration means every match was visited
			lx.next()
			if curLoop == nil {
				return nil, p.errf("nohalt outside iter")
			}
			curLoop.NoHalt = &Clause{Pos: SPos{path, t.line}, Label: "nohalt", Tags: p.parseTags()}
		case "assume":
			sf.Tokens["assume"]++
			return nil, p.errf("'assume' is not allowed in contract files")
		default:
			return nil, p.errf("unknown contract keyword %q", t.val)
		}
	}
	return sf, nil
}

// ParseSpecFile reads a Go contract file (lines starting with //@) or a .spec file (every
// non-blank line that does not start with '#'; a leading "//@" is optional there).
func ParseSpecFile(path string) (*SpecFile, error) {
	data, err := os.ReadFile(path)
	if err != nil {
		return nil, err
	}
	isGo := strings.HasSuffix(path, ".go")
	var lines []string
	var nos []int
	pkg := ""
	for i, raw := range strings.Split(string(data), "\n") {
		s := strings.TrimSpace(raw)
		if isGo {
			if strings.HasPrefix(s, "package ") && pkg == "" {
				pkg = strings.TrimSpace(strings.TrimPrefix(s, "package "))
			}
			if !strings.HasPrefix(s, "//@") {
				continue
			}
			s = strings.TrimPrefix(s, "//@")
		} else {
			if strings.HasPrefix(s, "#") {
				continue
			}
			s = strings.TrimPrefix(s, "//@")
		}
		lines = append(lines, s)
		nos = append(nos, i+1)
	}
	sf, err := parseSpecLines(path, lines, nos)
	if err != nil {
		return nil, err
	}
	sf.PkgName = pkg
	return sf, nil
}
