package main

// Rename-tolerant binding of source-level locals named in invariants and exit clauses.
//
// Clauses name locals by their source identifier. When an identifier no longer exists in the function (a local was
// renamed), the engine falls back to a structural fingerprint recorded from the tree the contracts were written
// against (contracts/external/locals.json, produced by `govc locals`): the type of the variable and its ordinal
// among the function's locals of that type in declaration order. This is sound whatever it binds to: clauses that
// mention locals are proof obligations themselves (exit clauses are never assumed; invariants are assumed only after
// their init/step obligations), so a wrong binding can only make an obligation fail.

import (
	"encoding/json"
	"go/token"
	"go/types"
	"os"
	"path/filepath"
	"sort"
	"strings"

	"golang.org/x/tools/go/ssa"
)

type localHint struct {
	Type string `json:"type"`
	Ord  int    `json:"ord"`
	Kind string `json:"kind"`
}

var localHints = map[string]map[string]localHint{}

func loadLocalHints(dir string) {
	b, err := os.ReadFile(filepath.Join(dir, "locals.json"))
	if err != nil {
		return
	}
	json.Unmarshal(b, &localHints)
}

func namedAllocs(fn *ssa.Function) []*ssa.Alloc {
	var as []*ssa.Alloc
	for _, b := range fn.Blocks {
		for _, in := range b.Instrs {
			if a, ok := in.(*ssa.Alloc); ok && token.IsIdentifier(a.Comment) && a.Comment != "complit" && a.Pos().IsValid() {
				as = append(as, a)
			}
		}
	}
	sort.SliceStable(as, func(i, j int) bool { return as[i].Pos() < as[j].Pos() })
	return as
}

func allocTypeString(a *ssa.Alloc) string {
	t := a.Type()
	if p, ok := t.Underlying().(*types.Pointer); ok {
		t = p.Elem()
	}
	return types.TypeString(t, nil)
}

func hintsOf(fn *ssa.Function) map[string]localHint {
	out := map[string]localHint{}
	cnt := map[string]int{}
	for _, a := range namedAllocs(fn) {
		ts := allocTypeString(a)
		if _, dup := out[a.Comment]; !dup {
			out[a.Comment] = localHint{Type: ts, Ord: cnt[ts], Kind: typeKindOf(ts, a)}
		}
		cnt[ts]++
	}
	return out
}

// allocByHint finds the local of fn with the given fingerprint.
func allocByHint(fn *ssa.Function, h localHint) *ssa.Alloc {
	n := 0
	for _, a := range namedAllocs(fn) {
		if allocTypeString(a) == h.Type {
			if n == h.Ord {
				return a
			}
			n++
		}
	}
	return nil
}

func cmdLocals(args []string) int {
	o, _ := parseOpts(args)
	w, err := loadAll(o)
	if err != nil {
		return 2
	}
	out := map[string]map[string]localHint{}
	var visit func(fn *ssa.Function)
	visit = func(fn *ssa.Function) {
		if h := hintsOf(fn); len(h) > 0 {
			out[fn.String()] = h
		}
		for _, c := range fn.AnonFuncs {
			visit(c)
		}
	}
	for k, fs := range w.FuncSpecs {
		if fs.External {
			continue
		}
		if fn := w.LookupFunc(k); fn != nil {
			visit(fn)
		}
	}
	// every function of the repository packages, so that a later run can tell new names from old ones
	fns := map[string]localHint{}
	for _, sp := range w.RepoPkgs {
		for _, fn := range allFuncs(sp) {
			if f, ok := fn.Object().(*types.Func); ok && fn.Synthetic == "" {
				fns[funcKeyOf(f)] = localHint{}
			}
		}
	}
	out["$functions"] = fns
	b, _ := json.MarshalIndent(out, "", " ")
	os.Stdout.Write(append(b, '\n'))
	return 0
}

// typeKindOf / hintKind: a coarse kind of a local's type ("struct", "ptr", "slice", "map", "iface", or the basic
// type's name), used to re-bind a local that was renamed and re-typed at the same time.
func typeKindOf(ts string, a *ssa.Alloc) string {
	t := a.Type()
	if p, ok := t.Underlying().(*types.Pointer); ok {
		t = p.Elem()
	}
	switch u := types.Unalias(t).Underlying().(type) {
	case *types.Struct:
		return "struct"
	case *types.Pointer:
		return "ptr"
	case *types.Slice:
		return "slice"
	case *types.Map:
		return "map"
	case *types.Interface:
		return "iface"
	case *types.Basic:
		return u.Name()
	}
	return ts
}

func hintKind(h localHint) string {
	if h.Kind != "" {
		return h.Kind
	}
	ts := h.Type
	switch {
	case strings.HasPrefix(ts, "struct{"):
		return "struct"
	case strings.HasPrefix(ts, "*"):
		return "ptr"
	case strings.HasPrefix(ts, "[]"):
		return "slice"
	case strings.HasPrefix(ts, "map["):
		return "map"
	case strings.HasPrefix(ts, "interface"), ts == "error", ts == "any":
		return "iface"
	}
	return ts
}

// rebindRenamedHelpers: the contract of an unexported helper whose function no longer exists is applied to the one new
// unexported function (a name the recorded tree did not have, no contract of its own) with the same receiver and the
// same parameter and result types. A rename then keeps its contract, at the definition and at every call site.
func (w *World) rebindRenamedHelpers() {
	baseline := localHints["$functions"]
	if baseline == nil {
		return
	}
	var keys []string
	for k := range w.FuncSpecs {
		keys = append(keys, k)
	}
	sort.Strings(keys)
	for _, k := range keys {
		fs := w.FuncSpecs[k]
		if fs.External || exportedKey(k) || w.LookupFunc(k) != nil {
			continue
		}
		prefix := k[:strings.LastIndex(k, ".")+1]
		var want []types.Type
		okTypes := true
		for _, p := range append(append([]SParam{}, fs.Params...), fs.Results...) {
			t, err := w.ResolveType(funcHome[fs], p.Type)
			if err != nil {
				okTypes = false
				break
			}
			want = append(want, t)
		}
		if !okTypes {
			continue
		}
		var cands []*ssa.Function
		for _, sp := range w.RepoPkgs {
			for _, fn := range allFuncs(sp) {
				f, ok := fn.Object().(*types.Func)
				if !ok || fn.Synthetic != "" || f.Exported() {
					continue
				}
				nk := funcKeyOf(f)
				if _, old := baseline[nk]; old || w.FuncSpecs[nk] != nil || !strings.HasPrefix(nk, prefix) || strings.Contains(nk[len(prefix):], ".") {
					continue
				}
				sig := f.Type().(*types.Signature)
				if sig.Params().Len() != len(fs.Params) || sig.Results().Len() != len(fs.Results) {
					continue
				}
				same := true
				for i := 0; i < sig.Params().Len(); i++ {
					if !types.Identical(sig.Params().At(i).Type(), want[i]) {
						same = false
					}
				}
				for i := 0; i < sig.Results().Len(); i++ {
					if !types.Identical(sig.Results().At(i).Type(), want[len(fs.Params)+i]) {
						same = false
					}
				}
				if same {
					cands = append(cands, fn)
				}
			}
		}
		if len(cands) == 1 {
			nk := fnKey(cands[0])
			delete(w.FuncSpecs, k)
			w.FuncSpecs[nk] = fs
			runNotes["contract of "+shortFn(k)+" applied to the renamed function "+shortFn(nk)+" (same receiver and signature, new name)"] = true
		}
	}
}
