package main

// Rename-tolerant binding of source-level locals named in invariants and exit clauses.
//
// Clauses name locals by their source identifier. When an identifier no longer exists in the function (a local was
// renamed), the engine falls back to a structural fingerprint recorded from the tree the contracts were written
// against (contracts/external/locals.json, produced by `govc locals`): the type of the variable and its ordinal
// among the function's locals of that type in declaration order. This is sound whatever it binds to: clauses that
// mention locals are proof obligations themselves (exit clauses are never assumed; invariants are assumed only after
// their init/step obligations), so a wrong binding can only make an obligation fail.

import (
	"encoding/json"
	"go/token"
	"go/types"
	"os"
	"path/filepath"
	"sort"

	"golang.org/x/tools/go/ssa"
)

type localHint struct {
	Type string `json:"type"`
	Ord  int    `json:"ord"`
}

var localHints = map[string]map[string]localHint{}

func loadLocalHints(dir string) {
	b, err := os.ReadFile(filepath.Join(dir, "locals.json"))
	if err != nil {
		return
	}
	json.Unmarshal(b, &localHints)
}

func namedAllocs(fn *ssa.Function) []*ssa.Alloc {
	var as []*ssa.Alloc
	for _, b := range fn.Blocks {
		for _, in := range b.Instrs {
			if a, ok := in.(*ssa.Alloc); ok && token.IsIdentifier(a.Comment) && a.Comment != "complit" && a.Pos().IsValid() {
				as = append(as, a)
			}
		}
	}
	sort.SliceStable(as, func(i, j int) bool { return as[i].Pos() < as[j].Pos() })
	return as
}

func allocTypeString(a *ssa.Alloc) string {
	t := a.Type()
	if p, ok := t.Underlying().(*types.Pointer); ok {
		t = p.Elem()
	}
	return types.TypeString(t, nil)
}

func hintsOf(fn *ssa.Function) map[string]localHint {
	out := map[string]localHint{}
	cnt := map[string]int{}
	for _, a := range namedAllocs(fn) {
		ts := allocTypeString(a)
		if _, dup := out[a.Comment]; !dup {
			out[a.Comment] = localHint{Type: ts, Ord: cnt[ts]}
		}
		cnt[ts]++
	}
	return out
}

// allocByHint finds the local of fn with the given fingerprint.
func allocByHint(fn *ssa.Function, h localHint) *ssa.Alloc {
	n := 0
	for _, a := range namedAllocs(fn) {
		if allocTypeString(a) == h.Type {
			if n == h.Ord {
				return a
			}
			n++
		}
	}
	return nil
}

func cmdLocals(args []string) int {
	o, _ := parseOpts(args)
	w, err := loadAll(o)
	if err != nil {
		return 2
	}
	out := map[string]map[string]localHint{}
	var visit func(fn *ssa.Function)
	visit = func(fn *ssa.Function) {
		if h := hintsOf(fn); len(h) > 0 {
			out[fn.String()] = h
		}
		for _, c := range fn.AnonFuncs {
			visit(c)
		}
	}
	for k, fs := range w.FuncSpecs {
		if fs.External {
			continue
		}
		if fn := w.LookupFunc(k); fn != nil {
			visit(fn)
		}
	}
	b, _ := json.MarshalIndent(out, "", " ")
	os.Stdout.Write(append(b, '\n'))
	return 0
}
