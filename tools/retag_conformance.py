#!/usr/bin/env python3
"""Recompute the property tags in the names of the conformance tests (TestVerifConf_<Cnn>_..._<group>) from the assumed
contracts each check actually used (evidence/*.json) and conformance/covers.json (group -> assumed contracts it samples).
Prints the assumed contracts that no test samples."""
import json, glob, re
cover = json.load(open('/verif/conformance/covers.json'))
used, allc = {}, set()
for f in sorted(glob.glob('/verif/evidence/C*.json')):
    d = json.load(open(f)); used[d['property_id']] = set(d['coverage']['assumed_contracts'] or []); allc |= used[d['property_id']]
covered = set(c for v in cover.values() for c in v)
print('assumed contracts used by some check and sampled by no test:', sorted(allc - covered))
p = '/verif/conformance/conformance_test.go.txt'
s = open(p).read()
for name, cs in cover.items():
    props = sorted(q for q, u in used.items() if u & set(cs))
    new = 'TestVerifConf_' + '_'.join(props) + '_' + name
    s, n = re.subn(r'TestVerifConf_(C\d\d_)+' + name + r'\b', new, s)
    assert n == 1, (name, n)
open(p, 'w').write(s)
print(len(cover), 'tests retagged')
