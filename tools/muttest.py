#!/usr/bin/env python3
"""Self-test of the verification machinery: apply each corpus edit to a scratch copy of /repo,
check it compiles (and, with --tests, that the baseline tests still pass), run the property checks
against the scratch copy and compare with the expectation (must-fail / must-pass).
Usage: muttest.py [--tests] [--all-props] [--ids M08,M09] [--patch file.diff --expect C03]"""
import json, os, subprocess, sys, tempfile, shutil, argparse, re

ENV = dict(os.environ, GOFLAGS="-mod=mod", GOPROXY="off", GOSUMDB="off", GOTOOLCHAIN="local")
VERIF = "/verif"

def sh(cmd, cwd=None, timeout=1800):
    p = subprocess.run(cmd, shell=True, cwd=cwd, env=ENV, stdout=subprocess.PIPE, stderr=subprocess.STDOUT, text=True, timeout=timeout)
    return p.returncode, p.stdout

def claimed_props():
    try:
        m = json.load(open(os.path.join(VERIF, "MANIFEST.json")))
        return [c["property_id"] for c in m.get("checks", [])]
    except Exception:
        return []

def run_case(case, args, baseline_fail):
    d = tempfile.mkdtemp(prefix="govc-mut-")
    try:
        sh(f"rsync -a --exclude .git /repo/ {d}/")
        if case.get("patch"):
            rc, out = sh(f"patch -p1 --no-backup-if-mismatch < {case['patch']}", cwd=d)
            if rc != 0:
                return {"id": case["id"], "result": "PATCH-FAILED", "detail": out[-400:]}
        for e in case.get("edits", []):
            p = os.path.join(d, e["file"])
            s = open(p).read()
            if s.count(e["old"]) < 1:
                return {"id": case["id"], "result": "EDIT-NOT-APPLICABLE", "detail": e["old"][:80]}
            s = s.replace(e["old"], e["new"], e.get("count", 1))
            open(p, "w").write(s)
        rc, out = sh("go build ./... && go vet -tags verif . ./types ./uuid >/dev/null 2>&1; go build -tags verif ./...", cwd=d)
        if rc != 0:
            return {"id": case["id"], "result": "DOES-NOT-COMPILE", "detail": out[-600:]}
        if args.tests:
            rc, out = sh("go test -vet=off -count=1 ./... 2>&1 | grep -E '^(--- FAIL|FAIL|ok)' ", cwd=d)
            fails = set(re.findall(r"--- FAIL: (\S+)", out))
            extra = fails - baseline_fail
            if extra:
                return {"id": case["id"], "result": "TESTS-FAIL", "detail": sorted(extra)}
        props = case.get("run") or (claimed_props() if args.all_props else case.get("expect", []))
        if not props:
            props = claimed_props()
        res = {}
        for p in props:
            rc, out = sh(f"{VERIF}/bin/govc check {p} --repo {d} --verif {d}/.verif-out --extspec {VERIF}/contracts/external", cwd=VERIF)
            viol = [l for l in out.splitlines() if l.startswith("VIOLATION")]
            res[p] = {"exit": rc, "violations": [re.sub(r" replay=\S+", "", v)[:220] for v in viol][:6]}
            if rc == 2:
                res[p]["tail"] = out[-500:]
        expect = set(case.get("expect", []))
        detected = {p for p, r in res.items() if r["exit"] == 1}
        broken = {p for p, r in res.items() if r["exit"] not in (0, 1)}
        kind = case.get("kind", "must-fail")
        if kind == "must-fail":
            ok = expect <= detected
            extra = detected - expect - set(case.get("also_ok", []))
        else:
            ok = not detected and not broken
            extra = detected
        return {"id": case["id"], "kind": kind, "result": "OK" if ok and not broken else "MISSED" if kind == "must-fail" else "FALSE-ALARM",
                "expect": sorted(expect), "detected": sorted(detected), "unexpected": sorted(extra), "broken": sorted(broken), "checks": res}
    finally:
        shutil.rmtree(d, ignore_errors=True)

def main():
    ap = argparse.ArgumentParser()
    ap.add_argument("--tests", action="store_true")
    ap.add_argument("--all-props", action="store_true")
    ap.add_argument("--ids", default="")
    ap.add_argument("--patch")
    ap.add_argument("--expect", default="")
    ap.add_argument("--corpus", default=os.path.join(VERIF, "selftest", "corpus.json"))
    ap.add_argument("-v", action="store_true")
    ap.add_argument("--jobs", type=int, default=4)
    args = ap.parse_args()
    if args.patch:
        cases = [{"id": os.path.basename(args.patch), "patch": os.path.abspath(args.patch), "expect": [x for x in args.expect.split(",") if x]}]
    else:
        cases = json.load(open(args.corpus))
        if args.ids:
            want = set(args.ids.split(","))
            cases = [c for c in cases if c["id"] in want]
    baseline_fail = {"TestSAML", "TestSAMLUsingSetSPKeyStore"}
    bad = 0
    out = []
    from concurrent.futures import ThreadPoolExecutor
    ex = ThreadPoolExecutor(args.jobs)
    for r in ex.map(lambda c: run_case(c, args, baseline_fail), cases):
        out.append(r)
        line = f"{r['id']:8} {r['result']:12} expect={r.get('expect')} detected={r.get('detected')} unexpected={r.get('unexpected')} {r.get('detail','')}"
        print(line, flush=True)
        if args.v:
            for p, cr in (r.get("checks") or {}).items():
                for v in cr["violations"]:
                    print("      ", v)
                if cr.get("tail"):
                    print("      ", cr["tail"])
        if r["result"] != "OK":
            bad += 1
    json.dump(out, open(os.path.join(VERIF, "out", "muttest-last.json"), "w"), indent=1)
    print(f"{len(cases)-bad}/{len(cases)} as expected")
    sys.exit(1 if bad else 0)

if __name__ == "__main__":
    main()
