#!/usr/bin/env python3
"""Re-run the demonstration of every seeded change against the CURRENT /repo tree (scratch copies): the demo must
pass without the change and fail with it. Seeds were confirmed against the commit they were written for; later fix
commits can change that (e.g. C20-K after fix F8). Writes /verif/seeded/RECONFIRM.json.
usage: reconfirm_seeds.py [--jobs 6] [--only id,id]"""
import json, os, re, shutil, subprocess, sys, tempfile, argparse
from concurrent.futures import ThreadPoolExecutor
ENV = dict(os.environ, GOFLAGS="-mod=mod", GOPROXY="off", GOSUMDB="off", GOTOOLCHAIN="local")
def sh(cmd, cwd):
    p = subprocess.run(["bash", "-c", cmd], cwd=cwd, env=ENV, stdout=subprocess.PIPE, stderr=subprocess.STDOUT, text=True, errors="replace", timeout=600)
    return p.returncode, p.stdout
def run(seed):
    d = tempfile.mkdtemp(prefix="govc-reconf-")
    try:
        sh(f"rsync -a --exclude .git /repo/ {d}/", "/")
        src = open(f"/verif/seeded/{seed}/demo_test.go").read()
        m = re.search(r"^package (\w+)", src, re.M)
        pkg = d if not m or m.group(1) not in ("types", "uuid") else os.path.join(d, m.group(1))
        name = re.search(r"func (TestSeedDemo\w*)\(", src).group(1)
        shutil.copy(f"/verif/seeded/{seed}/demo_test.go", os.path.join(pkg, "zz_seed_demo_test.go"))
        rc0, out0 = sh(f"go test -vet=off -count=1 -timeout 300s -run '^{name}$' . 2>&1 | tail -5", pkg)
        passes_without = "ok" in out0 and "FAIL" not in out0
        rc, out = sh(f"patch -p1 --no-backup-if-mismatch < /verif/seeded/{seed}/patch.diff", d)
        if rc != 0:
            return seed, {"applies": False, "passes_without_change": passes_without}
        rc1, out1 = sh(f"go test -vet=off -count=1 -timeout 300s -run '^{name}$' . 2>&1 | tail -5", pkg)
        fails_with = "FAIL" in out1 or "panic" in out1
        r = {"applies": True, "passes_without_change": passes_without, "fails_with_change": fails_with}
        if not passes_without: r["output_without"] = out0[-300:]
        if not fails_with: r["output_with"] = out1[-300:]
        return seed, r
    finally:
        shutil.rmtree(d, ignore_errors=True)
ap = argparse.ArgumentParser(); ap.add_argument("--jobs", type=int, default=6); ap.add_argument("--only", default="")
a = ap.parse_args()
seeds = sorted(x for x in os.listdir("/verif/seeded") if os.path.isdir(f"/verif/seeded/{x}"))
if a.only: seeds = [s for s in seeds if s in a.only.split(",")]
out = {}
with ThreadPoolExecutor(a.jobs) as ex:
    for seed, r in ex.map(run, seeds):
        out[seed] = r
        if not (r.get("applies") and r.get("passes_without_change") and r.get("fails_with_change")):
            print(seed, r, flush=True)
json.dump(out, open("/verif/seeded/RECONFIRM.json", "w"), indent=1, sort_keys=True)
good = sum(1 for r in out.values() if r.get("applies") and r.get("passes_without_change") and r.get("fails_with_change"))
print(f"{good}/{len(out)} demonstrations still discriminate on the current tree")
