#!/usr/bin/env python3
"""Apply every behaviour-preserving change under /verif/refactorings/<Cnn>/<k>.diff to a scratch copy of /repo and run
the claimed checks against it: every check must still exit 0 (an alarm here is a false alarm of the machinery).
usage: run_refac.py [--only C05/1,...] [--jobs 3] [--props all|own] [--dir /verif/refactorings]"""
import json, os, re, shutil, subprocess, sys, tempfile, argparse, glob
from concurrent.futures import ThreadPoolExecutor
ENV = dict(os.environ, GOFLAGS="-mod=mod", GOPROXY="off", GOSUMDB="off", GOTOOLCHAIN="local")
def sh(cmd, cwd=None, timeout=1200):
    p = subprocess.run(["bash", "-c", cmd], cwd=cwd, env=ENV, stdout=subprocess.PIPE, stderr=subprocess.STDOUT, text=True, timeout=timeout)
    return p.returncode, p.stdout
def claimed():
    return [c["property_id"] for c in json.load(open("/verif/MANIFEST.json"))["checks"]]
def run(item, mode, base):
    prop, k = item.split("/")
    d = tempfile.mkdtemp(prefix="govc-refac-")
    try:
        sh(f"rsync -a --exclude .git /repo/ {d}/")
        rc, out = sh(f"patch -p1 --no-backup-if-mismatch < {base}/{prop}/{k}.diff", cwd=d)
        if rc != 0:
            return item, {"error": "patch does not apply: " + out[-200:]}
        rc, out = sh("go build ./... && go vet -tags verif ./... 2>&1 | head -5; go build -tags verif ./...", cwd=d)
        if rc != 0:
            return item, {"error": "does not build: " + out[-300:]}
        props = claimed() if mode == "all" else [prop]
        res = {}
        for p in props:
            rc, out = sh(f"timeout 600 {a.govc} check {p} --repo {d} --verif {d}/.verif-out --extspec {a.extspec}", cwd="/verif")
            viol = [l for l in out.splitlines() if l.startswith("VIOLATION")]
            if rc != 0:
                res[p] = {"exit": rc, "obligations": [re.search(r"obligation=(\S+)", v).group(1) for v in viol if "obligation=" in v][:8],
                          "notes": [l.strip()[:300] for l in out.splitlines() if "FAILED" in l or "UNDECIDED" in l][:8]}
        return item, {"alarms": res}
    finally:
        shutil.rmtree(d, ignore_errors=True)
ap = argparse.ArgumentParser(); ap.add_argument("--only", default=""); ap.add_argument("--jobs", type=int, default=3)
ap.add_argument("--props", default="all"); ap.add_argument("--dir", default="/verif/refactorings")
ap.add_argument("--govc", default="/verif/bin/govc"); ap.add_argument("--extspec", default="/verif/contracts/external")
a = ap.parse_args()
items = sorted(f"{os.path.basename(os.path.dirname(f))}/{os.path.basename(f)[:-5]}" for f in glob.glob(f"{a.dir}/C*/*.diff"))
if a.only: items = [i for i in items if i in a.only.split(",")]
out = {}
path = f"{a.dir}/RESULTS.json"
if os.path.exists(path) and a.only:
    out = json.load(open(path))
with ThreadPoolExecutor(a.jobs) as ex:
    for item, r in ex.map(lambda s: run(s, a.props, a.dir), items):
        out[item] = r
        print(item, r.get("error") or ("ok" if not r["alarms"] else "ALARM " + json.dumps(r["alarms"])[:1500]), flush=True)
json.dump(out, open(path, "w"), indent=1, sort_keys=True)
