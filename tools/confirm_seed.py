#!/usr/bin/env python3
"""Confirm a sub-agent's seeded change in its scratch worktree and store it under /verif/seeded/.
usage: [WT=worktree SD=seeddir] confirm_seed.py C05 A 'C05,C03'   (property id, change letter, properties it breaks)"""
import json, os, re, shutil, subprocess, sys
ENV = dict(os.environ, GOFLAGS="-mod=mod", GOPROXY="off", GOSUMDB="off", GOTOOLCHAIN="local")
def sh(cmd, cwd):
    cmd = 'set -o pipefail; ' + cmd
    p = subprocess.run(["bash", "-c", cmd], cwd=cwd, env=ENV, stdout=subprocess.PIPE, stderr=subprocess.STDOUT, text=True, errors="replace")
    return p.returncode, p.stdout
pid, x = sys.argv[1], sys.argv[2]
breaks = sys.argv[3].split(",") if len(sys.argv) > 3 else [pid]
wt, sd = os.environ.get("WT", f"/tmp/wt/{pid}"), os.environ.get("SD", f"/tmp/seeds/{pid}")
diff, demo, md = f"{sd}/{x}.diff", f"{sd}/{x}_demo_test.go", f"{sd}/{x}.md"
log = []
def step(name, ok, detail=""):
    log.append({"step": name, "ok": ok, "detail": detail[-300:]})
    print(("ok  " if ok else "FAIL"), name, detail[-200:].replace("\n", " | ") if not ok else "")
    if not ok:
        json.dump(log, open(f"{sd}/{x}.confirm.json", "w"), indent=1); sys.exit(1)
rc, out = sh("git status --porcelain", wt); step("worktree clean", out.strip() == "", out)
pkgdir = wt
src = open(demo).read()
m = re.search(r"^package (\w+)", src, re.M)
if m and m.group(1) in ("types", "uuid"):
    pkgdir = os.path.join(wt, m.group(1))
rc, out = sh(f"git apply {diff}", wt); step("patch applies", rc == 0, out)
rc, out = sh("go build ./... && go vet ./... >/dev/null 2>&1; true", wt); 
rc, out = sh("go build ./...", wt); step("builds with change", rc == 0, out)
rc, out = sh("go test -vet=off -count=1 ./... 2>&1 | grep -E '^(--- FAIL|FAIL|ok|panic)'", wt)
fails = set(re.findall(r"--- FAIL: (\S+)", out)) - {"TestSAML", "TestSAMLUsingSetSPKeyStore"}
flaky = {"TestRedirect"}
step("existing tests unchanged with change", not (fails - flaky), out)
shutil.copy(demo, os.path.join(pkgdir, f"zz_seed_{x}_demo_test.go"))
rc, out = sh(f"go test -vet=off -count=1 -run 'TestSeedDemo{x}$' . 2>&1 | tail -15", pkgdir); step("demo FAILS with change", rc != 0 and "FAIL" in out, out)
rc, out = sh("git checkout -- .", wt)
rc, out = sh(f"go test -vet=off -count=1 -run 'TestSeedDemo{x}$' . 2>&1 | tail -5", pkgdir); step("demo PASSES without change", rc == 0 and "ok" in out, out)
os.remove(os.path.join(pkgdir, f"zz_seed_{x}_demo_test.go"))
rc, out = sh("git status --porcelain", wt); step("worktree clean again", out.strip() == "", out)
dst = f"/verif/seeded/{pid}-{x}"
os.makedirs(dst, exist_ok=True)
shutil.copy(diff, f"{dst}/patch.diff"); shutil.copy(demo, f"{dst}/demo_test.go")
desc = open(md).read() if os.path.exists(md) else ""
meta = {"id": f"{pid}-{x}", "breaks": breaks, "source": "independent sub-agent given only the property text and a scratch checkout of the repository at commit " + os.environ.get("SRC", "9c3f2c5") + " (no contract files, nothing from /verif)",
        "needs_to_manifest": desc, "confirmed": log,
        "ran": ["git apply patch.diff", "go build ./...", "go test -vet=off -count=1 ./... (only the two baseline failures)",
                f"go test -run TestSeedDemo{x} (fails with the change, passes without)"]}
json.dump(meta, open(f"{dst}/meta.json", "w"), indent=1)
print("stored", dst)
