#!/usr/bin/env python3
"""Apply every seeded change under /verif/seeded to a scratch copy of /repo, run every claimed check against it and
record which checks report it (and whether the replay reproduced it). Writes /verif/seeded/RESULTS.json.
usage: run_seeded.py [--only C05-A,...] [--jobs 4] [--props expected|all]"""
import json, os, re, shutil, subprocess, sys, tempfile, argparse
from concurrent.futures import ThreadPoolExecutor
ENV = dict(os.environ, GOFLAGS="-mod=mod", GOPROXY="off", GOSUMDB="off", GOTOOLCHAIN="local")
def sh(cmd, cwd=None, timeout=900):
    p = subprocess.run(["bash", "-c", cmd], cwd=cwd, env=ENV, stdout=subprocess.PIPE, stderr=subprocess.STDOUT, text=True, timeout=timeout)
    return p.returncode, p.stdout
def claimed():
    return [c["property_id"] for c in json.load(open("/verif/MANIFEST.json"))["checks"]]
def run(seed, props_mode):
    meta = json.load(open(f"/verif/seeded/{seed}/meta.json"))
    d = tempfile.mkdtemp(prefix="govc-seed-")
    try:
        sh(f"rsync -a --exclude .git /repo/ {d}/")
        rc, out = sh(f"patch -p1 --no-backup-if-mismatch < /verif/seeded/{seed}/patch.diff", cwd=d)
        if rc != 0:
            return seed, {"error": "patch does not apply to the current tree: " + out[-200:]}
        rc, out = sh("go build ./...", cwd=d)
        if rc != 0:
            return seed, {"error": "does not build: " + out[-200:]}
        props = claimed() if props_mode == "all" else [p for p in meta["breaks"] if p in claimed()]
        res = {}
        for p in props:
            rc, out = sh(f"timeout 600 /verif/bin/govc check {p} --repo {d} --verif {d}/.verif-out --extspec /verif/contracts/external", cwd="/verif")
            viol = [l for l in out.splitlines() if l.startswith("VIOLATION")]
            res[p] = {"exit": rc, "obligations": [re.search(r"obligation=(\S+)", v).group(1) for v in viol][:6],
                      "reproduced_on_real_code": any("no-failing-input-found" not in v for v in viol)}
        detected = sorted(p for p, r in res.items() if r["exit"] == 1)
        return seed, {"breaks": meta["breaks"], "detected_by": detected, "missed": sorted(set(meta["breaks"]) & set(claimed()) - set(detected)),
                      "unclaimed": sorted(set(meta["breaks"]) - set(claimed())), "checks": res}
    finally:
        shutil.rmtree(d, ignore_errors=True)
ap = argparse.ArgumentParser(); ap.add_argument("--only", default=""); ap.add_argument("--jobs", type=int, default=4); ap.add_argument("--props", default="expected")
a = ap.parse_args()
seeds = sorted(x for x in os.listdir("/verif/seeded") if os.path.isdir(f"/verif/seeded/{x}"))
if a.only: seeds = [s for s in seeds if s in a.only.split(",")]
out = {}
path = "/verif/seeded/RESULTS.json"
if os.path.exists(path) and a.only:
    out = json.load(open(path))
with ThreadPoolExecutor(a.jobs) as ex:
    for seed, r in ex.map(lambda s: run(s, a.props), seeds):
        out[seed] = r
        print(seed, r.get("error") or f"breaks={r['breaks']} detected_by={r['detected_by']} missed={r['missed']} unclaimed={r['unclaimed']}", flush=True)
json.dump(out, open(path, "w"), indent=1, sort_keys=True)
