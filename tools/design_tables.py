#!/usr/bin/env python3
"""Regenerate the two generated tables of /verif/DESIGN.md (status per property from /verif/evidence, seeded
changes from /verif/seeded/RESULTS.json) between their BEGIN/END markers. Nothing else in DESIGN.md is touched."""
import json, os, re

def status_table():
    man = {c["property_id"]: c for c in json.load(open("/verif/MANIFEST.json"))["checks"]}
    rows = ["| id | functions under contract | paths | obligations (all discharged) | back ends | wall s (solver s) | assumed contracts | level |",
            "|---|---|---|---|---|---|---|---|"]
    for i in range(1, 21):
        pid = "C%02d" % i
        p = f"/verif/evidence/{pid}.json"
        if not os.path.exists(p) or pid not in man:
            rows.append(f"| {pid} | not claimed | | | | | | |")
            continue
        e = json.load(open(p)); c = e["coverage"]
        fns = c.get("functions_under_contract") or []
        short = [re.sub(r"github\.com/russellhaering/gosaml2/?", "", f).replace("(*SAMLServiceProvider).", "sp.") for f in fns]
        fs = ", ".join(f"`{f}`" for f in short[:5]) + (f" +{len(short)-5}" if len(short) > 5 else "")
        be = ", ".join(f"{k} {v}" for k, v in sorted((c.get("by_backend") or {}).items()) if v)
        ok = "" if c["discharged"] == c["obligations"] and not e.get("violations") else " **NOT ALL**"
        rows.append(f"| {pid} | {fs} | {c.get('paths', '')} | {c['obligations']}{ok} | {be} | {e['wall_s']} ({c.get('solver_time_s', '')}) | "
                    f"{len(c.get('assumed_contracts') or [])} | {man[pid]['level_claimed']['category']} |")
    return "\n".join(rows)

def seeded_table():
    p = "/verif/seeded/RESULTS.json"
    if not os.path.exists(p):
        return "(not yet generated: run `python3 tools/run_seeded.py --props all`)"
    res = json.load(open(p))
    rows = ["| seed | what it changes | breaks | detected by | first failing obligation of the target check | reproduced on real code |",
            "|---|---|---|---|---|---|"]
    missed = 0
    for s in sorted(res):
        r = res[s]
        meta = json.load(open(f"/verif/seeded/{s}/meta.json"))
        what = (meta.get("needs_to_manifest") or "").strip().splitlines()[0] if meta.get("needs_to_manifest") else ""
        what = re.sub(r"^#*\s*C\d+\s*/?\s*(change|Change|seed)?\s*[AB]?\s*[—:-]*\s*", "", what).replace("|", "/")
        if len(what) > 150: what = what[:147] + "..."
        if "error" in r:
            rows.append(f"| {s} | {what} | | error: {r['error'][:60]} | | |"); continue
        if not r["breaks"]:
            rows.append(f"| {s} | {what} | none on the repaired tree (originally {','.join(meta.get('originally_breaks', []))}; superseded by a fix, see meta.json) | {','.join(r['detected_by'])} | | |")
            continue
        tgt = r["breaks"][0]
        ch = r["checks"].get(tgt, {})
        ob = (ch.get("obligations") or [""])[0]
        rep = "yes" if any(c.get("reproduced_on_real_code") for c in r["checks"].values()) else "no"
        miss = f" **missed: {','.join(r['missed'])}**" if r["missed"] else ""
        missed += bool(r["missed"])
        rows.append(f"| {s} | {what} | {','.join(r['breaks'])} | {','.join(r['detected_by'])}{miss} | `{ob}` | {rep} |")
    rows.append("")
    rows.append(f"{len(res)} seeded changes, {missed} missed by the check of a property they break.")
    return "\n".join(rows)

def refac_table(base="/verif/refactorings"):
    p = base + "/RESULTS.json"
    if not os.path.exists(p):
        return "(not yet generated: run `python3 tools/run_refac.py`)"
    res = json.load(open(p))
    rows = ["| change | what it does | checks that alarm (false alarms) | failing obligation |", "|---|---|---|---|"]
    quiet = 0
    for k in sorted(res):
        r = res[k]
        md = f"{base}/{k}.md"
        what = open(md).read().strip().splitlines()[0] if os.path.exists(md) else ""
        what = what.replace("|", "/")
        if len(what) > 160: what = what[:157] + "..."
        if "error" in r:
            rows.append(f"| {k} | {what} | error: {r['error'][:80]} | |"); continue
        al = r["alarms"]
        if not al: quiet += 1
        ob = "; ".join(sorted({re.sub(r"^.*/", "", o) for a in al.values() for o in a.get("obligations", [])[:2]}))
        rows.append(f"| {k} | {what} | {', '.join(sorted(al)) or 'none'} | {('`'+ob+'`') if ob else ''} |")
    rows.append("")
    rows.append(f"{len(res)} behaviour-preserving changes, {quiet} without any alarm.")
    return "\n".join(rows)

def fill(s, name, body):
    a, b = f"<!-- {name}-BEGIN -->", f"<!-- {name}-END -->"
    i, j = s.index(a) + len(a), s.index(b)
    return s[:i] + "\n" + body + "\n" + s[j:]

s = open("/verif/DESIGN.md").read()
s = fill(s, "STATUS-TABLE", status_table())
s = fill(s, "SEEDED-TABLE", seeded_table())
s = fill(s, "REFAC-TABLE", refac_table())
s = fill(s, "REFAC2-TABLE", refac_table("/verif/refactorings2"))
open("/verif/DESIGN.md", "w").write(s)
