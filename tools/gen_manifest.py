#!/usr/bin/env python3
"""Generate /verif/MANIFEST.json from the table below (kept in one place so that it stays valid)."""
import json
PROPS = [json.loads(l) for l in open('/verif/properties.jsonl')]
TB = "trusted base: the govc VC generator and its Go->logic translation (go/ssa naive form, x/tools v0.29.0), the SMT solvers (z3 5.1.0 first, z3 4.8.12 and cvc5 1.0.3 on undecided goals / in the thorough tier), and the assumed dependency contracts in /verif/contracts/external (listed by name in the evidence of every run)."
CHECKS = {
 "C01": ("Deductive proof, for all inputs and configurations, of the in-repo half of the provenance property: ghost state ($src, Verified, sigState, validatedFrom, detachOf) is established only by the assumed contracts of goxmldsig's Validate and encoding/xml; the obligations prove that on every accepting path the returned Response was decoded from the verified re-parse (signed root) or that every returned assertion was individually validated, is a direct child of the root, and that every Assertion match was signed (iterator invariant over NSFindIterate). Resistance of goxmldsig itself to wrapping is an assumed contract, not proved.",
         "Assumes: dsig.Validate / NSDetatch / NSFindIterate iteration schema / etree tree operations / encoding/xml decode contract (xml:\"-\" fields untouched, zero target) / rtvalidator. " + TB,
         "contract-based deductive verification: ghost provenance postconditions + iterator invariant, VCs from go/ssa, SMT", "6 C01"),
 "C02": ("Proves that every validation context handed to goxmldsig carries exactly sp.IDPCertificateStore and the injected sp.Clock and is built per call, that the only error treated as 'unsigned' is the ErrMissingSignature sentinel (by identity) with sigState == missing, and that acceptance with a false flag implies the root's signature state was 'missing', never 'bad', for all four message kinds. Certificate membership / validity tests inside goxmldsig are assumed.",
         "Assumes the contract of (*dsig.ValidationContext).Validate (err==nil <=> good, ErrMissingSignature <=> missing) and that fresh error values differ from sentinels. " + TB,
         "contract-based deductive verification: postconditions on validationContext/validateElementSignature and the four validators", "6 C02"),
 "C03": ("Full functional contract: Validate returns nil exactly when every profile check holds for every assertion (quantified loop invariant), and a non-nil error is the typed error naming a violated element/attribute; the encoded-level entry points are proved to return only responses satisfying the same predicate on all three paths (skip, signed root, signed assertions).",
         "Assumes time.Parse / Time.Before,After,Compare / Clock.Now contracts (instants). " + TB,
         "contract-based deductive verification: iff-postcondition + loop invariant, SMT", "6 C03"),
 "C04": ("Proves flag honesty: with SkipSignatureValidation every indicator is false; a true Response/Logout flag implies Verified($src) and sigState(root)==good; a false Response flag (checking on) implies every returned assertion is flagged and Verified; the assertion-info flag mirrors the Response flag (exit clause); schema obligations check that every SignatureValidated field is xml:\"-\".",
         "Assumes the encoding/xml decode contract and dsig.Validate contract. " + TB,
         "contract-based deductive verification: flag postconditions, exit clauses, schema (struct-tag) obligations", "6 C04"),
 "C05": ("Full functional contract on both time decisions: expiry is rejected exactly when now >= NotOnOrAfter for some assertion (half-open), the InvalidTime warning is exactly now < NotBefore || now >= NotOnOrAfter, missing/unparsable bounds give the matching typed error; comparisons must be provable through the time contracts, so string comparison or truncation is unprovable.",
         "Assumes time.Parse (parseOK/instantOf), Time comparison methods and Clock.Now contracts. " + TB,
         "contract-based deductive verification: iff-postconditions over instants, SMT", "6 C05"),
 "C06": ("Full functional contract: NotInAudience <=> exists restriction with no matching audience (two nested quantified loop invariants), OneTimeUse and ProxyRestriction mirror the conditions (count, length, order); RetrieveAssertionInfo is proved to attach exactly the warnings of Assertions[0].",
         "Strings are an uninterpreted sort with exact equality. " + TB,
         "contract-based deductive verification: quantified loop invariants, SMT", "6 C06"),
 "C07": ("Proves the in-repo obligations: every decrypted EncryptedAssertion was a direct child of the element handed to decryptAssertions (visit clause of the iterator), the explicit panic is unreachable, decryption happens before (and never instead of) signature validation, the decryption key/cert come from the configured source, with ValidateEncryptionCert the certificate is non-empty, parsable and now within [NotBefore, NotAfter], and a recipient certificate in EncryptedKey must equal the SP's.",
         "Assumes x509.ParseCertificate, base64, bytes.Equal, etree RemoveChild/AddChild and the iteration schema of NSFindIterate. " + TB,
         "contract-based deductive verification: iterator visit clauses + functional postconditions", "6 C07"),
 "C08": ("Thin: the accessors Get/GetAll/GetSize are proved against full functional contracts (loop invariant), the extraction in RetrieveAssertionInfo (NameID, assertions, session fields) by exit clauses, no spurious in-repo rejection (ProfileOK => accepted), and schema obligations check that every decoded struct carries the XML binding the SAML schema prescribes. Layout independence of encoding/xml + etree + canonicalisation is assumed, not decided.",
         "Not covered: serialisation layouts (prefix style, CDATA, comments, character references) are parser semantics of dependencies. " + TB,
         "contract-based deductive verification of accessors/extraction + schema (struct-tag) obligations", "6 C08"),
 "C09": ("Zero-annotation safety sweep (nil dereference, index/slice bounds, failed type assertion, nil-map write, integer overflow, explicit panic reachability, 'panics unless' preconditions of dependencies) over every function on the inbound paths and the decryption routines, plus exactly-one-of result/error at every return of every entry point, for every configuration that supplies a certificate store.",
         "Assumes dependencies do not panic when their stated preconditions hold; lengths are bounded by 2^56; typed-nil RSA keys are excluded (configuration invariant); stack depth is outside any contract. " + TB,
         "contract-based deductive verification: generated safety obligations over go/ssa + xor postconditions", "6 C09"),
 "C10": ("Functional iff-contracts for the logout checks (Version, Destination vs SLO URL, Issuer, Status) with typed errors, flag postconditions for both encoded validators (skip => false; true => Verified($src) and sigState(root)==good; false with checking on => sigState(root)==missing), zero-target preconditions for decoding, and schema obligations that the three message kinds have distinct XMLName bindings.",
         "Assumes dsig.Validate and encoding/xml contracts. " + TB,
         "contract-based deductive verification: iff-postconditions + flag postconditions + schema obligations", "6 C10"),
 "C11": ("Proves dispatch and key source: algorithm identifiers route to GCM/CBC with the 12-byte nonce / block-size IV split, digest and transport identifiers select the matching primitive and hash, the inline EncryptedKey is used iff it has a CipherValue, CBC unpadding rejects nothing but an impossible pad length and strips exactly the pad, and getDecryptCert returns the setter key if set, else the field key. The cipher inverses (AES-GCM/CBC, RSA) and in-place decryption are assumed, so the byte-exact round trip is relative to those contracts.",
         "Assumes crypto contracts in crypto.spec; in-place mutation by CryptBlocks is not modelled (only lengths). " + TB,
         "contract-based deductive verification: dispatch postconditions, exit clauses on unpadding, key-source postconditions", "6 C11"),
 "C12": ("Functional contract of maybeDeflate for every decoder (raw first; inflate through a reader limited to limit+1 without overflow; reject above the limit; same decoder on the inflated bytes), verified on its own body, and postconditions of parseResponse (round-trip validation runs on exactly the bytes that were parsed; source is raw or the limited inflation; size bound).",
         "Assumes io.LimitReader/io.ReadAll/flate reader contracts (len(ReadAll(LimitReader(r,n))) <= max(n,0)). " + TB,
         "contract-based deductive verification: functional contract with an abstract decoder (apply), SMT", "6 C12"),
 "C13": ("Proves key/cert/hash/canonicaliser selection of SigningContext from the property statement (signing setter, signing field, encryption setter, encryption field; configured algorithm when known and fitting, else default; configured canonicaliser), that the embedded certificate equals what GetSigningCertBytes reports for every nil-pattern of the four key sources, the lazy caching and lock discipline. That the resulting signature verifies after serialisation is goxmldsig + etree behaviour and is assumed.",
         "Assumes dsig.NewSigningContext / NewDefaultSigningContext / SetSignatureMethod contracts and pure key stores. " + TB,
         "contract-based deductive verification: selection postconditions over all key configurations", "6 C13"),
 "C19": ("Functional postconditions on Metadata and MetadataWithSLO transcribed from the property: entity ID, ACS endpoint/binding/index, flags, signing descriptor = certificate of the effective signing key, encryption descriptor = certificate of the effective decryption key, advertised methods are exactly the five and all handled by DecryptBytes, validity = UTC(now)+7d resp. hours*3600s (1..2562047), SLO endpoint.",
         "XML round trip of the descriptor (encoding/xml) is assumed. " + TB,
         "contract-based deductive verification: functional postconditions, SMT", "6 C19"),
}
checks = []
for pid, (text, note, tech, ref) in CHECKS.items():
    checks.append({"property_id": pid, "quick_cmd": f"/verif/bin/govc check {pid}", "thorough_cmd": f"/verif/bin/govc check {pid} --tier thorough",
                   "evidence_file": f"/verif/evidence/{pid}.json", "replay_cmd_template": "cat {path}", "engine": "govc",
                   "level_claimed": {"category": "proof", "text": text, "design_ref": "DESIGN.md §" + ref}, "level_note": note, "technique": tech})
na = [{"property_id": p["id"], "reason": "check under construction in this session (contracts not yet written); to be claimed once its obligations discharge on the unchanged tree"} for p in PROPS if p["id"] not in CHECKS]
m = {"version": 1,
     "setup_cmd": "cd /verif/govc && GOFLAGS=-mod=mod GOPROXY=off GOSUMDB=off GOTOOLCHAIN=local go build -o /verif/bin/govc .",
     "hooks": {"guard": "verif", "enable": "contract files are comment-only //go:build verif files; govc loads /repo with -tags=verif (go build -tags verif ./... also works)",
               "baseline_off_cmd": "cd /repo && GOFLAGS=-mod=mod GOPROXY=off GOSUMDB=off GOTOOLCHAIN=local go test -vet=off -count=1 ./...",
               "source_commits": ["53f6ff1", "HEAD"], "add_only": True},
     "engines": [{"name": "govc", "path": "/verif/govc", "serves_properties": sorted(CHECKS), "kind_free_text": "VC generator: path-wise symbolic execution of go/ssa naive form against //@ contracts, SMT-LIB VCs discharged by z3-new/z3/cvc5"}],
     "checks": checks, "not_applicable": na,
     "notes": "See DESIGN.md. Exit 0 = every obligation discharged; exit 1 + VIOLATION lines = a failed/undecided/unbindable obligation; exit 2 = infrastructure failure or vacuity guard."}
json.dump(m, open('/verif/MANIFEST.json', 'w'), indent=1)
print("checks:", len(checks), "not_applicable:", len(na))
